#!/venv/bin/python
"""Create mutants/<ID>/<name>.diff from (file, old, new) replacements against /repo HEAD."""
import difflib, os, sys

def make(prop, name, file, old, new, count=1):
    src = open(f'/repo/{file}').read()
    assert src.count(old) >= 1, (name, 'old text not found')
    assert src.count(old) == count, (name, 'old text occurs', src.count(old))
    dst = src.replace(old, new)
    d = difflib.unified_diff(src.splitlines(True), dst.splitlines(True), f'a/{file}', f'b/{file}')
    os.makedirs(f'/verif/mutants/{prop}', exist_ok=True)
    open(f'/verif/mutants/{prop}/{name}.diff', 'w').write(''.join(d))

M = [
 ('C01', 'entry-rank-constant', 'wn/_add.py', "             entry['id'], lexidmap.get(entry['id'], lexid),\n             i,\n", "             entry['id'], lexidmap.get(entry['id'], lexid),\n             0,\n"),
 ('C01', 'member-rank-default-zero', 'wn/_add.py', "ssrank.get(sense['id'], DEFAULT_MEMBER_RANK)", "ssrank.get(sense['id'], 0)"),
 ('C01', 'batch-skips-one-per-later-batch', 'wn/_add.py', "        yield batch\n        batch = list(islice(it, 0, BATCH_SIZE))", "        yield batch\n        batch = list(islice(it, 1, BATCH_SIZE + 1))"),
 ('C01', 'pronunciation-variety-notation-swapped', 'wn/_add.py', "                        (eid, lid, form.get('id'), rank,\n                         p['text'], p.get('variety'), p.get('notation'),", "                        (eid, lid, form.get('id'), rank,\n                         p['text'], p.get('notation'), p.get('variety'),"),
 ('C01', 'count-metadata-dropped', 'wn/_add.py', "             count['value'],\n             count['meta'])", "             count['value'],\n             None)"),
 ('C01', 'adjposition-only-for-adjectives', 'wn/_add.py', "            if s.get('adjposition')]", "            if s.get('adjposition') and e['lemma']['partOfSpeech'] in 'as']"),
 ('C02', 'count-metadata-not-dumped', 'wn/lmf.py', "    elem = ET.Element('Count', attrib=_meta_dict(count.get('meta')))", "    elem = ET.Element('Count')"),
 ('C02', 'requires-url-dropped', 'wn/lmf.py', "    if dep.get('url'):\n        attrib['url'] = dep['url']\n    elem = ET.Element(deptype", "    elem = ET.Element(deptype"),
 ('C02', 'ilidefinition-meta-v10-only', 'wn/lmf.py', "    elem = ET.Element('ILIDefinition', attrib=_meta_dict(ili_definition.get('meta')))", "    elem = ET.Element('ILIDefinition')"),
 ('C03', 'definition-language-not-exported', 'wn/_export.py', "        {'text': text,\n         'language': language,\n         'sourceSense': sense_id,", "        {'text': text,\n         'language': '',\n         'sourceSense': sense_id,"),
 ('C03', 'count-meta-by-sense-rowid', 'wn/_export.py', "         'meta': _export_metadata(id, 'counts')}", "         'meta': _export_metadata(rowid, 'counts')}"),
 ('C03', 'requires-url-not-exported', 'wn/_export.py', "        {'id': id, 'version': version, 'url': url}\n        for id, version, url, _ in get_lexicon_dependencies(lexid)", "        {'id': id, 'version': version}\n        for id, version, url, _ in get_lexicon_dependencies(lexid)"),
 ('C04', 'examples-no-lexicon-filter', 'wn/_queries.py', "         WHERE {prefix}_rowid = ?\n           AND lexicon_rowid IN ({_qs(lexicon_rowids)})\n    '''\n    return conn.execute(query, (rowid, *lexicon_rowids)).fetchall()", "         WHERE {prefix}_rowid = ?\n    '''\n    return conn.execute(query, (rowid,)).fetchall()"),
 ('C04', 'definitions-no-lexicon-filter', 'wn/_queries.py', "         WHERE d.synset_rowid = ?\n           AND d.lexicon_rowid IN ({_qs(lexicon_rowids)})\n    '''\n    return conn.execute(query, (synset_rowid, *lexicon_rowids)).fetchall()", "         WHERE d.synset_rowid = ?\n    '''\n    return conn.execute(query, (synset_rowid,)).fetchall()"),
 ('C04', 'counts-no-lexicon-filter', 'wn/_queries.py', "         WHERE sense_rowid = ?\n           AND lexicon_rowid IN ({_qs(lexicon_rowids)})\n    '''\n    rows: list[_Count] = conn.execute(\n        query, (sense_rowid, *lexicon_rowids)\n    ).fetchall()", "         WHERE sense_rowid = ?\n    '''\n    rows: list[_Count] = conn.execute(\n        query, (sense_rowid,)\n    ).fetchall()"),
 ('C04', 'frames-no-lexicon-filter', 'wn/_queries.py', "         WHERE sbs.sense_rowid = ?\n           AND sb.lexicon_rowid IN ({_qs(lexicon_rowids)})\n    '''\n    return [row[0] for row in conn.execute(query, (rowid, *lexicon_rowids))]", "         WHERE sbs.sense_rowid = ?\n    '''\n    return [row[0] for row in conn.execute(query, (rowid,))]"),
 ('C04', 'ilis-ignore-selection', 'wn/_core.py', "        iterable = find_ilis(status=status, lexicon_rowids=self._lexicon_ids)", "        iterable = find_ilis(status=status)"),
 ('C07', 'xz-not-recognised-in-tar-path', 'wn/_util.py', "    return _inspect_file_signature(path, b'\\xFD7zXZ\\x00')", "    return _inspect_file_signature(path, b'\\xFD7zXZ\\x01')"),
 ('C07', 'add-twice-updates-label', 'wn/_add.py', "            if cur.execute(lexqry, info).fetchone():\n                skipmap[key] = True\n                reason = 'already added'", "            if cur.execute(lexqry, info).fetchone():\n                skipmap[key] = True\n                reason = 'already added'\n                cur.execute('UPDATE lexicons SET modified = 1 WHERE id = :id AND version = :version', {'id': info['id'], 'version': info['version']})"),
 ('C07', 'in-memory-resource-mutated', 'wn/_add.py', "            cnt.setdefault('meta')", "            cnt.setdefault('meta')", 1) if False else ('C07', 'extension-without-base-added', 'wn/_add.py', "            elif base and cur.execute(lexqry, base).fetchone() is None:", "            elif base and base.get('url') and cur.execute(lexqry, base).fetchone() is None:"),
 ('C12', 'targets-without-ili-kept', 'wn/_core.py', "            if ili is None:\n                continue\n", "            if ili is None:\n                ili = ''\n"),
 ('C12', 'expand-default-ignores-missing-warning', 'wn/_core.py', "                    if missing:\n                        warnings.warn(", "                    if missing and False:\n                        warnings.warn("),
 ('C12', 'expanded-sources-include-self-lexicon-only', 'wn/_core.py', "            if rowid not in (self._id, NON_ROWID)\n", "            if rowid != NON_ROWID\n"),
 ('C10', 'translate-ignores-target', 'wn/_core.py', "        return synsets(ili=ili, lang=lang, lexicon=lexicon)", "        return synsets(ili=ili, lang=lang)"),
 ('C10', 'synset-hash-without-lexid', 'wn/_core.py', "        return hash((self._ENTITY_TYPE, self._ili, self._lexid, self._id))", "        return hash((self._ili, self._lexid))"),
 ('C16', 'common-hypernyms-unsorted', 'wn/taxonomy.py', "    return sorted(common)\n", "    return list(common)\n"),
 ('C16', 'unique-list-via-set', 'wn/_util.py', "    targets = {item: True for item in items}\n    return list(targets)", "    return list(set(items))"),
 ('C01', 'synset-lookup-any-earlier-lexicon', 'wn/_add.py', "     WHERE ss.id = ?\n       AND ss.lexicon_rowid = ?", "     WHERE ss.id = ?\n       AND ss.lexicon_rowid <= ?"),
]
for m in M:
    try:
        make(*m)
    except AssertionError as e:
        print('SKIP', e)
print(sum(len(os.listdir(f'/verif/mutants/{d}')) for d in os.listdir('/verif/mutants')), 'mutant files')
