#!/venv/bin/python
"""Re-run every confirmed seeded change under <root>/seeded/ against the check of its property
(and against extra checks listed below) and write <root>/SEEDED_RESULTS.md.
usage: tools/run_seeded.py [name-prefix ...]"""
import glob, json, os, re, subprocess, sys, tempfile, shutil, time
ROOT = os.path.dirname(os.path.dirname(os.path.abspath(__file__)))
EXTRA = {'C01-foreign-keys-off-after-failed-add': ['C05', 'C06'],
         'C04-stale-family-memo-after-remove': ['C05'],
         'C05-relink-ignores-provider-version': [], 'C09-backoff-per-pos-group': ['C17'],
         'C07-any-instead-of-all-skips-file': ['C05'], 'C10-extension-list-cache-stale': ['C05'],
         'C03-extension-examples-owned-by-base': ['C05'], 'C11-relation-lexicon-filter-dropped': ['C04'],
         'C12-ili-cache-ignores-lexicon-scope': ['C04']}
sel = sys.argv[1:]
rows = []


def one(d):
    rows = []
    name = os.path.basename(d.rstrip('/'))
    prop = name.split('-')[0]
    props = [prop] + [p for p in EXTRA.get(name, []) if p != prop]
    # also the checks that caught it when it was evaluated (meta.json: {'C08@seed1': 'CAUGHT'})
    try:
        meta = json.load(open(os.path.join(d, 'meta.json')))
        for k, v in (meta.get('checks') or {}).items():
            if v == 'CAUGHT' and k.split('@')[0] not in props:
                props.append(k.split('@')[0])
    except (OSError, ValueError):
        pass
    base = '/dev/shm' if os.path.isdir('/dev/shm') else tempfile.gettempdir()
    work = tempfile.mkdtemp(prefix='wnseedrun-', dir=base)
    copy = os.path.join(work, 'repo')
    try:
        subprocess.check_call(['git', 'clone', '-q', '/repo', copy])
        if subprocess.run(['git', 'apply', os.path.join(d, 'patch.diff')], cwd=copy).returncode:
            rows.append((name, prop, 'patch does not apply to the current tree', '', ''))
            print(rows[-1], flush=True)
            return rows
        for p in props:
            t0 = time.time()
            env = dict(os.environ, WN_VERIF_REPO=copy, PYTHONPATH=copy + os.pathsep + ROOT, VERIF_SEED='1')
            c = subprocess.run(['/venv/bin/python', '-m', 'wnv.run', p, '--tier', 'quick'], cwd=ROOT, env=env,
                               capture_output=True, text=True)
            out = c.stdout + c.stderr
            kind = re.search(r'kind=(\S+)', out)
            verdict = {0: 'MISSED', 1: 'CAUGHT', 2: 'HARNESS-ERROR'}.get(c.returncode, str(c.returncode))
            rows.append((name, p, verdict, kind.group(1) if kind else '', f'{time.time()-t0:.0f}s'))
            print(rows[-1], flush=True)
    finally:
        shutil.rmtree(work, ignore_errors=True)
    return rows


from concurrent.futures import ThreadPoolExecutor
dirs = [d for d in sorted(glob.glob(f'{ROOT}/seeded/*/'))
        if not sel or any(os.path.basename(d.rstrip('/')).startswith(s) for s in sel)]
with ThreadPoolExecutor(max_workers=4) as ex:       # 4 x (4 shards) = the 16 cores
    for r in ex.map(one, dirs):
        rows.extend(r)
shutil.rmtree(f'{ROOT}/replays', ignore_errors=True)
with open(f'{ROOT}/SEEDED_RESULTS.md', 'w') as fh:
    fh.write(f'# Seeded changes against the checks (quick tier, VERIF_SEED=1), {time.strftime("%Y-%m-%d %H:%M")}\n\n')
    fh.write('| seeded change | check | result | first discrepancy kind | time |\n|---|---|---|---|---|\n')
    for r in rows:
        fh.write('| ' + ' | '.join(r) + ' |\n')
