"""Seventh-round prompt: the fourth-round text against the current tree, without `git stash`
(worktrees share the stash ref) and with scratch files confined to the worktree."""
import subprocess, sys
pid = sys.argv[1]
base = subprocess.run(['/venv/bin/python', '/verif/tools/seed_prompt4.py', pid], capture_output=True,
                      text=True).stdout.replace('seed4-', 'seed7-')
base = base.replace(
    "To check the demo on unchanged code use `git stash` / `git stash pop` in your worktree (or "
    "`git diff > patch.diff; git checkout -- wn; run; git apply patch.diff`).",
    "To check the demo on unchanged code use `git diff -- wn > patch.diff; git checkout -- wn; "
    "<run>; git apply patch.diff` in your worktree. NEVER use `git stash` (the stash is shared with "
    "other engineers' worktrees).")
assert 'NEVER use `git stash`' in base
base += ("\nSCRATCH SPACE: create temporary files and directories only below your worktree "
         f"(/tmp/seed7-{pid}/tmp, e.g. tempfile.mkdtemp(dir='/tmp/seed7-{pid}/tmp')) or let the demo "
         "remove its temporary directory before exiting; do not leave anything in /dev/shm or /tmp "
         "outside your worktree.\n")
print(base)
