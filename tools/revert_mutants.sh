#!/bin/bash
# For every "fix:" commit of /repo build the reverse patch (a mutant that re-introduces the
# defect) under /verif/mutants/<ID>/revert-<sha>.diff
cd /repo
declare -A MAP=( [f3c8162]=C02 [d991f70]=C07 [822e16c]=C01 [5f123ed]=C01 [aeba062]=C11 [5dea654]=C10 [939b66d]=C04 [d96a4ab]=C08 [3e98dc5]=C08 )
for c in "${!MAP[@]}"; do
  p=${MAP[$c]}
  mkdir -p /verif/mutants/$p
  git diff $c $c^ > /verif/mutants/$p/revert-$c.diff
done
rm -f /verif/mutants/C08/revert-bare-id-newest.diff /verif/mutants/C08/revert-remove-materialise.diff
ls /verif/mutants/*/
