import json,sys,subprocess
pid=sys.argv[1]
tried={
'C01':["_collect_frames shared the senses list between frames (aliasing) in LMF 1.0 documents","PRAGMA foreign_keys switched OFF around the bulk insert and not restored when the add fails"],
'C03':["Synset@members exported in entry order instead of the stored member order","examples an extension attaches to external senses/synsets stored with the base lexicon as owner"],
'C04':["dropped the lexicon filter on the senses joined in find_synsets(form)","Sense.word()/synset() searching other selected lexicons in selection order","dropped the relation-owner lexicon filter in get_synset_relations","a per-Wordnet cache of ILI->synsets keyed by ILI only","a memo of each lexicon's extension family keyed by rowid that wn.remove() does not clear"],
'C05':["forms that an extension adds to an external entry were stored with the base lexicon as owner","_add_lmf returned when ANY lexicon of the file was skippable","the re-link of waiting dependencies matching on provider id only (version ignored)"],
'C06':["replaced 'with connect() as conn' by try/except Exception: rollback (BaseException not rolled back)","a module-level cache of relation_types rowids that is not rolled back with a failed add"],
'C07':["_add_lmf returned when ANY (instead of all) lexicon of the file was skippable","lru_cache on the package-directory scan keyed by path only"],
'C09':["the normalized back-off decided per (pos, forms) group of the lemmatizer instead of once per query","final de-duplication keyed on the textual id instead of the entity"],
'C10':["Sense._home_lexicon_ids searching all selected lexicons in selection order","lru_cache on get_lexicon_extensions()/bases cleared by add()/remove() but not by add_lexical_resource()"],
'C11':["dropped the relation-owner lexicon filter in get_synset_relations","relation_paths sharing one visited set between sibling branches","synsets returned by Sense.get_related_synsets() created without the Wordnet (lose the scope)"],
'C12':["a per-Wordnet cache of ILI->local synsets keyed by ILI only","default expand dependencies collected in a dict keyed by provider id only"],
'C16':["a process-global lru_cache of hypernym paths keyed by Synset only","default expand dependencies collected in a set (iteration order depends on the hash seed)"],
'C20':["1.1-only list elements accepted in 1.0 documents (version element table bypassed)","expat Parse(data) called without the final flag, so a truncated tail is accepted"],
'C02':["Lexicon tag attributes written without escaping newline/tab/CR","character data handler overwriting instead of appending with buffer_text on (text nodes > 8 KiB truncated)"],
'C08':["de-duplicating already selected lexicons inside the SQL query before LIMIT 1","the 'found' flag overwritten per specifier, so a list whose last member matches nothing raises"],
'C13':["relation_paths sharing one visited set between sibling branches","shortest_path ignoring the simulated root whenever a real common hypernym exists"],
'C14':["wup using the shortest path between the two synsets instead of the two distances to the LCS","an lru_cache of the LCS depth keyed by Synset (stale across databases / re-installs)"],
'C15':["memoized ancestor sets that are partial on hypernym cycles","corpus tokens without alphabetic characters skipped before the lookup"],
'C17':["the exception-map lookup skipped when the query is itself a lemma","the Morphy lemma/exception inventory memoised by lexicon specifier (stale across databases)"],
'C18':["W404 also reporting sense->synset relations","E401 accepting a sense id as the target of a synset relation"],
'C19':["the index upsert keeping an existing definition when the file has none (COALESCE)","the TSV file parsed with csv.reader's default quoting"],
}
base=subprocess.run(['/venv/bin/python','/verif/tools/seed_prompt.py',pid],capture_output=True,text=True).stdout.replace(f'/tmp/seed-{pid}',f'/tmp/seed3-{pid}').replace(f'seed-{pid}',f'seed3-{pid}')
extra="\n\nIMPORTANT - SECOND ROUND: other engineers have already made the following changes for this property, so do NOT repeat them or close variants of them:\n"+''.join(f"  - {t}\n" for t in tried[pid])+"Make a DIFFERENT kind of change in a different place, and aim for one that is harder to notice: it should manifest only under a specific multi-step history, a fault at a particular point, a particular combination of installed lexicons and arguments, an unusual-but-valid input shape, or through two cooperating sites that each look fine alone. It must still be a natural, plausible bug (no magic constants, no randomness, no time dependence) and the demonstration must still reliably fail with it.\n"
print(base+extra)
