#!/venv/bin/python
"""Sensitivity protocol (DESIGN 3.10): apply one patch to a scratch copy of /repo,
optionally run the repo's test-suite there (a mutant that fails it is unrealistic),
run a property's check against the copy and expect exit 1; then delete the copy.

usage: tools/mutate.py <patch.diff> <PROPERTY> [--tier quick] [--no-suite] [--seed N] [--only SUB]
"""
import argparse, os, shutil, subprocess, sys, tempfile, time
ROOT = os.path.dirname(os.path.dirname(os.path.abspath(__file__)))

ap = argparse.ArgumentParser()
ap.add_argument('patch')
ap.add_argument('property', nargs='+')
ap.add_argument('--tier', default='quick')
ap.add_argument('--no-suite', action='store_true')
ap.add_argument('--seed', default='1')
ap.add_argument('--only')
ap.add_argument('--scale', default='1.0')
ap.add_argument('--keep', help='copy replay files of the mutant run into this directory')
a = ap.parse_args()

base = '/dev/shm' if os.path.isdir('/dev/shm') else tempfile.gettempdir()
work = tempfile.mkdtemp(prefix='wnmut-', dir=base)
copy = os.path.join(work, 'repo')
try:
    subprocess.check_call(['git', 'clone', '-q', '/repo', copy])
    # working-tree state of /repo (committed HEAD) + patch
    r = subprocess.run(['git', 'apply', os.path.abspath(a.patch)], cwd=copy)
    if r.returncode:
        print('PATCH-DOES-NOT-APPLY'); sys.exit(3)
    env = dict(os.environ, WN_VERIF_REPO=copy, PYTHONPATH=copy, VERIF_SEED=a.seed)
    if not a.no_suite:
        t = subprocess.run(['/venv/bin/python', '-m', 'pytest', '-q', '-p', 'no:cacheprovider', '-x', 'tests'],
                           cwd=copy, env=env, capture_output=True, text=True)
        tail = t.stdout.strip().splitlines()[-1] if t.stdout.strip() else ''
        print('suite:', tail)
        if t.returncode:
            print('MUTANT-FAILS-SUITE'); sys.exit(4)
    rc_all = {}
    for prop in a.property:
        t0 = time.time()
        cmd = ['/venv/bin/python', '-m', 'wnv.run', prop, '--tier', a.tier, '--scale', a.scale]
        if a.only:
            cmd += ['--only', a.only]
        env2 = dict(env, PYTHONPATH=copy + os.pathsep + ROOT)
        c = subprocess.run(cmd, cwd=ROOT, env=env2, capture_output=True, text=True)
        lines = [l for l in (c.stdout + c.stderr).splitlines() if 'conda' not in l]
        print(f'--- {prop}: exit {c.returncode} in {time.time()-t0:.0f}s')
        for l in lines[-8:]:
            print('   ', l[:300])
        rc_all[prop] = c.returncode
    print('RESULT', ' '.join(f'{p}={"CAUGHT" if rc == 1 else ("HARNESS-ERROR" if rc == 2 else "MISSED")}' for p, rc in rc_all.items()))
finally:
    shutil.rmtree(work, ignore_errors=True)
    # replays written while checking a mutant do not belong to the real tree
    for p in a.property:
        if a.keep and os.path.isdir(f'{ROOT}/replays/{p}'):
            os.makedirs(a.keep, exist_ok=True)
            for f in os.listdir(f'{ROOT}/replays/{p}'):
                shutil.copy(f'/verif/replays/{p}/{f}', os.path.join(a.keep, f'{p}-{f}'))
        shutil.rmtree(f'{ROOT}/replays/{p}', ignore_errors=True)
