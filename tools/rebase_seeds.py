#!/venv/bin/python
"""Seeded changes were written against older trees; later repairs of /repo touch some of the same
lines.  For every seeded/<name>/patch.diff that no longer applies to /repo HEAD, try a 3-way
apply in a scratch clone and, if it merges cleanly, replace patch.diff by the merged diff (the
original is kept as patch.orig.diff).  Reports what could not be merged."""
import glob, json, os, shutil, subprocess, tempfile
ROOT = os.path.dirname(os.path.dirname(os.path.abspath(__file__)))
work = tempfile.mkdtemp(prefix='wnreb-', dir='/dev/shm' if os.path.isdir('/dev/shm') else None)
clone = os.path.join(work, 'repo')
subprocess.check_call(['git', 'clone', '-q', '/repo', clone])
head = subprocess.check_output(['git', 'rev-parse', '--short', 'HEAD'], cwd=clone, text=True).strip()
ok = rebased = failed = 0
for d in sorted(glob.glob(f'{ROOT}/seeded/*/')):
    p = os.path.join(d, 'patch.diff')
    if subprocess.run(['git', 'apply', '--check', p], cwd=clone, capture_output=True).returncode == 0:
        ok += 1
        continue
    r = subprocess.run(['git', 'apply', '--3way', p], cwd=clone, capture_output=True, text=True)
    conflict = r.returncode != 0 or subprocess.run(
        ['git', 'diff', '--name-only', '--diff-filter=U'], cwd=clone, capture_output=True,
        text=True).stdout.strip()
    if conflict:
        failed += 1
        print('CANNOT MERGE', os.path.basename(d.rstrip('/')))
    else:
        diff = subprocess.check_output(['git', 'diff', 'HEAD'], cwd=clone, text=True)
        if not os.path.exists(os.path.join(d, 'patch.orig.diff')):
            shutil.copyfile(p, os.path.join(d, 'patch.orig.diff'))
        open(p, 'w').write(diff)
        mp = os.path.join(d, 'meta.json')
        m = json.load(open(mp))
        m['rebased_on'] = head
        json.dump(m, open(mp, 'w'), indent=1)
        rebased += 1
        print('rebased', os.path.basename(d.rstrip('/')))
    subprocess.run(['git', 'reset', '-q', '--hard'], cwd=clone)
    subprocess.run(['git', 'clean', '-qfd'], cwd=clone)
shutil.rmtree(work, ignore_errors=True)
print(f'{ok} apply as they are, {rebased} rebased onto {head}, {failed} cannot be merged')
