"""Fourth-round prompt: the earlier changes for the property are listed from seeded/*/meta.json."""
import json, sys, subprocess, glob, os
pid = sys.argv[1]
tried = []
for m in sorted(glob.glob('/verif/seeded/*/meta.json')):
    d = json.load(open(m))
    if d.get('property') == pid:
        name = os.path.basename(os.path.dirname(m))
        tried.append(f"{name.split('-', 1)[1].replace('-', ' ')} (needed: {d.get('needs_to_manifest', '?')})")
base = subprocess.run(['/venv/bin/python', '/verif/tools/seed_prompt.py', pid], capture_output=True,
                      text=True).stdout.replace(f'/tmp/seed-{pid}', f'/tmp/seed4-{pid}').replace(
                          f'seed-{pid}', f'seed4-{pid}')
extra = ("\n\nIMPORTANT - LATER ROUND: other engineers have already made the following changes for this "
         "property (short names), so do NOT repeat them or close variants of them:\n"
         + ''.join(f"  - {t}\n" for t in tried) +
         "Make a DIFFERENT kind of change in a different place, and aim for one that is harder to notice: "
         "it should manifest only under a specific multi-step history, a fault at a particular point, a "
         "particular combination of installed lexicons and arguments (several selected lexicons, "
         "extensions of extensions, expand lexicons with gaps, two versions of one lexicon, lexicons that "
         "reuse each other's ids), an unusual-but-valid input shape, or through two cooperating sites that "
         "each look fine alone. It must still be a natural, plausible bug (no magic constants, no "
         "randomness, no time dependence) and the demonstration must still reliably fail with it.\n\n"
         "ALSO: while reading the code for this property, if you notice behaviour of the UNCHANGED library "
         "that already seems to violate the property (an existing bug), describe it at the end of your "
         "report under the heading 'EXISTING DEFECTS NOTICED', with a minimal reproduction if you have "
         "one. Do not fix it and do not base your change on it.\n")
print(base + extra)
