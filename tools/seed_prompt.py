import json,sys
pid=sys.argv[1]
p=[json.loads(l) for l in open('/verif/properties.jsonl') if json.loads(l)['id']==pid][0]
print(f"""You are a software engineer helping to evaluate a test/verification effort for the Python library goodmami/wn (a library for querying wordnets: WN-LMF XML reader/writer, SQLite-backed lexicon store and query layer, taxonomy and similarity functions). You have your own scratch git worktree of the repository at /tmp/seed-{pid} (work ONLY there; never touch /repo, /verif or any other directory; do not read anything under /verif).

THE PROPERTY ({pid}): {p['title']}
Statement: {p['statement']}
Quantified over: {p['quantifier']['text']}
Why the existing test-suite cannot settle it: {p['why_tests_cant']}
Code anchors: files {p['anchors']['files']}; mechanisms: {json.dumps(p['anchors']['mechanism'])}

YOUR TASK: make ONE realistic change to the library source (under /tmp/seed-{pid}/wn/) that BREAKS this property while the library still imports and the existing test-suite still passes entirely. The change should look like something a maintainer could plausibly commit (a performance tweak, a refactoring slip, an off-by-one, a dropped condition, a swapped argument, two cooperating sites that each look fine alone ...), and it must need something SPECIFIC to manifest - a particular multi-step sequence of operations, an unusual (but valid) input, a fault at a particular point, a particular combination of lexicons/arguments - rather than something ordinary use would expose at once. Do not make it artificially obscure (no magic constants keyed on ids, no time/randomness triggers): it should be a natural bug.

Then write a DEMONSTRATION: a small self-contained Python script /tmp/seed-{pid}/demo_{pid}.py that uses only the library's public API (plus tempfile etc.), sets wn.config.data_directory to a fresh temporary directory, builds whatever input it needs (e.g. writes a small WN-LMF XML file or builds an in-memory resource; see tests/data/*.xml for the format), and exits with status 1 (printing what went wrong) when the property is violated and 0 when it holds. It must FAIL with your change and PASS on the unchanged code.

HOW TO RUN THINGS: python is /venv/bin/python. The wn package installed in /venv points at /repo, so to use YOUR worktree always run with PYTHONPATH set:  cd /tmp/seed-{pid} && PYTHONPATH=/tmp/seed-{pid} /venv/bin/python demo_{pid}.py   and the test-suite with:  cd /tmp/seed-{pid} && PYTHONPATH=/tmp/seed-{pid} /venv/bin/python -m pytest -q -p no:cacheprovider tests   (95 tests must pass; verify that wn.__file__ is under /tmp/seed-{pid}). Every shell command prints a harmless conda warning first. To check the demo on unchanged code use `git stash` / `git stash pop` in your worktree (or `git diff > patch.diff; git checkout -- wn; run; git apply patch.diff`).

DELIVERABLES (all inside /tmp/seed-{pid}): (1) the source change left applied in the worktree, and also saved as /tmp/seed-{pid}/patch.diff (output of `git diff -- wn`); (2) demo_{pid}.py; (3) a short final report: what you changed and why it breaks the property, what specifically is needed for the violation to manifest, the exact commands you ran and their results (tests pass with the change; demo exits 1 with the change and 0 without). Do not commit anything.""")
