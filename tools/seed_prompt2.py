import json,sys,subprocess
pid=sys.argv[1]
tried={
'C01':["_collect_frames shared the senses list between frames (aliasing) in LMF 1.0 documents"],
'C03':["Synset@members exported in entry order instead of the stored member order"],
'C04':["dropped the lexicon filter on the senses joined in find_synsets(form)","Sense.word()/synset() searching other selected lexicons in selection order","dropped the relation-owner lexicon filter in get_synset_relations","a per-Wordnet cache of ILI->synsets keyed by ILI only"],
'C05':["forms that an extension adds to an external entry were stored with the base lexicon as owner","_add_lmf returned when ANY lexicon of the file was skippable"],
'C06':["replaced 'with connect() as conn' by try/except Exception: rollback (BaseException not rolled back)"],
'C07':["_add_lmf returned when ANY (instead of all) lexicon of the file was skippable"],
'C09':["the normalized back-off decided per (pos, forms) group of the lemmatizer instead of once per query"],
'C10':["Sense._home_lexicon_ids searching all selected lexicons in selection order"],
'C11':["dropped the relation-owner lexicon filter in get_synset_relations","relation_paths sharing one visited set between sibling branches"],
'C12':["a per-Wordnet cache of ILI->local synsets keyed by ILI only"],
'C16':["a process-global lru_cache of hypernym paths keyed by Synset only"],
'C20':["1.1-only list elements accepted in 1.0 documents (version element table bypassed)"],
'C02':["Lexicon tag attributes written without escaping newline/tab/CR"],
'C08':["de-duplicating already selected lexicons inside the SQL query before LIMIT 1"],
'C13':["relation_paths sharing one visited set between sibling branches"],
'C14':["wup using the shortest path between the two synsets instead of the two distances to the LCS"],
'C15':["memoized ancestor sets that are partial on hypernym cycles"],
'C17':["the exception-map lookup skipped when the query is itself a lemma"],
'C18':["W404 also reporting sense->synset relations"],
'C19':["the index upsert keeping an existing definition when the file has none (COALESCE)"],
}
base=subprocess.run(['/venv/bin/python','/verif/tools/seed_prompt.py',pid],capture_output=True,text=True).stdout.replace(f'/tmp/seed-{pid}',f'/tmp/seed2-{pid}').replace(f'seed-{pid}',f'seed2-{pid}')
extra="\n\nIMPORTANT - SECOND ROUND: other engineers have already made the following changes for this property, so do NOT repeat them or close variants of them:\n"+''.join(f"  - {t}\n" for t in tried[pid])+"Make a DIFFERENT kind of change in a different place, and aim for one that is harder to notice: it should manifest only under a specific multi-step history, a fault at a particular point, a particular combination of installed lexicons and arguments, an unusual-but-valid input shape, or through two cooperating sites that each look fine alone. It must still be a natural, plausible bug (no magic constants, no randomness, no time dependence) and the demonstration must still reliably fail with it.\n"
print(base+extra)
