#!/venv/bin/python
"""Confirm a seeded change and run checks against it.

usage: tools/seed_eval.py <seed dir with patch.diff + demo_*.py> <PROPERTY> [other properties...]
          [--name NAME] [--tier quick] [--seeds 1,2]

Steps (all in a scratch clone of /repo, removed afterwards):
  1. demo on the unchanged clone must exit 0
  2. apply patch; the repository's test-suite must pass; demo must exit non-zero
  3. run the named checks against the patched clone (WN_VERIF_REPO) and report CAUGHT / MISSED
Writes /verif/seeded/<NAME>/{patch.diff,demo.py,meta.json}.
"""
import argparse, glob, json, os, shutil, subprocess, sys, tempfile, time

ap = argparse.ArgumentParser()
ap.add_argument('seeddir')
ap.add_argument('property', nargs='+')
ap.add_argument('--name')
ap.add_argument('--tier', default='quick')
ap.add_argument('--seeds', default='1')
ap.add_argument('--needs', default='')
a = ap.parse_args()

patch = os.path.join(a.seeddir, 'patch.diff')
demos = glob.glob(os.path.join(a.seeddir, 'demo_*.py')) + glob.glob(os.path.join(a.seeddir, 'demo.py'))
assert os.path.exists(patch) and demos, 'patch.diff / demo_*.py missing'
demo = demos[0]
name = a.name or os.path.basename(a.seeddir.rstrip('/'))
base = '/dev/shm' if os.path.isdir('/dev/shm') else tempfile.gettempdir()
work = tempfile.mkdtemp(prefix='wnseed-', dir=base)
copy = os.path.join(work, 'repo')
meta = {'property': a.property[0], 'name': name, 'ran': []}
try:
    subprocess.check_call(['git', 'clone', '-q', '/repo', copy])
    env = dict(os.environ, PYTHONPATH=copy, WN_VERIF_REPO=copy)

    def run(cmd, cwd=copy, **kw):
        r = subprocess.run(cmd, cwd=cwd, env=env, capture_output=True, text=True, **kw)
        meta['ran'].append({'cmd': ' '.join(cmd), 'exit': r.returncode})
        return r

    shutil.copy(demo, os.path.join(copy, 'demo.py'))
    r0 = run(['/venv/bin/python', 'demo.py'])
    print('demo on unchanged tree: exit', r0.returncode)
    ap_ = run(['git', 'apply', os.path.abspath(patch)])
    if ap_.returncode:
        print('PATCH DOES NOT APPLY:', ap_.stderr[:500]); sys.exit(3)
    t = run(['/venv/bin/python', '-m', 'pytest', '-q', '-p', 'no:cacheprovider', 'tests'])
    tail = (t.stdout.strip().splitlines() or [''])[-1]
    print('suite with change:', tail)
    r1 = run(['/venv/bin/python', 'demo.py'])
    print('demo with change: exit', r1.returncode, '|', (r1.stdout + r1.stderr).strip().splitlines()[-1:] )
    meta['demo_unchanged_exit'] = r0.returncode
    meta['demo_changed_exit'] = r1.returncode
    meta['suite_with_change'] = tail
    ok = r0.returncode == 0 and r1.returncode != 0 and t.returncode == 0
    meta['confirmed'] = ok
    print('CONFIRMED' if ok else 'NOT-CONFIRMED')
    results = {}
    if ok:
        for prop in a.property:
            for seed in a.seeds.split(','):
                t0 = time.time()
                env2 = dict(env, PYTHONPATH=copy + os.pathsep + '/verif', VERIF_SEED=seed)
                c = subprocess.run(['/venv/bin/python', '-m', 'wnv.run', prop, '--tier', a.tier],
                                   cwd='/verif', env=env2, capture_output=True, text=True)
                lines = [l for l in (c.stdout + c.stderr).splitlines() if 'conda' not in l]
                viol = [l for l in lines if l.startswith('VIOLATION') or l.startswith('  sub=')]
                verdict = {0: 'MISSED', 1: 'CAUGHT', 2: 'HARNESS-ERROR'}.get(c.returncode, str(c.returncode))
                results[f'{prop}@seed{seed}'] = verdict
                print(f'--- {prop} seed {seed}: {verdict} in {time.time()-t0:.0f}s')
                for l in viol[:4]:
                    print('    ', l[:260])
                if c.returncode == 2:
                    for l in lines[-6:]:
                        print('    ', l[:300])
                meta['ran'].append({'cmd': f'VERIF_SEED={seed} python -m wnv.run {prop} --tier {a.tier} (against patched clone)',
                                    'exit': c.returncode, 'first_violation': viol[:2]})
                shutil.rmtree(f'/verif/replays/{prop}', ignore_errors=True)
    meta['checks'] = results
    meta['needs_to_manifest'] = a.needs
    out = f'/verif/seeded/{name}'
    os.makedirs(out, exist_ok=True)
    shutil.copy(patch, os.path.join(out, 'patch.diff'))
    shutil.copy(demo, os.path.join(out, 'demo.py'))
    json.dump(meta, open(os.path.join(out, 'meta.json'), 'w'), indent=1)
    print('RESULT', results)
finally:
    shutil.rmtree(work, ignore_errors=True)
