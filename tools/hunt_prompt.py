"""Prompt for a defect-hunting sub-agent: property text + scratch worktree, nothing from /verif."""
import json, sys
pid = sys.argv[1]
p = [json.loads(l) for l in open('/verif/properties.jsonl') if json.loads(l)['id'] == pid][0]
print(f"""You are a software engineer auditing the Python library goodmami/wn (a library for querying wordnets: WN-LMF XML reader/writer, SQLite-backed lexicon store and query layer, taxonomy and similarity functions). You have your own scratch git worktree of the repository at /tmp/hunt-{pid} (work ONLY there; never touch /repo, /verif or any other directory; do not read anything under /verif). Do NOT change the library source: your job is to find EXISTING behaviour of the unchanged code that violates the property below.

THE PROPERTY ({pid}): {p['title']}
Statement: {p['statement']}
Quantified over: {p['quantifier']['text']}
Code anchors: files {p['anchors']['files']}; mechanisms: {json.dumps(p['anchors']['mechanism'])}

YOUR TASK: read the code behind this property carefully and look for inputs, configurations or histories - valid ones, but unusual - for which the unchanged library already breaks the statement. Think about: several selected lexicons, two versions of one lexicon (sharing all ids), extensions and extensions of extensions, expand lexicons with gaps (inferred '*INFERRED*' synsets), lexicon ids / versions / written forms with unusual characters (spaces, quotes, glob or SQL wildcard characters, upper/lower case, Unicode), empty collections, optional attributes given as empty strings, elements the reader accepts in places the writer never produces, all LMF versions 1.0-1.3, repeated calls, other orders of operations, objects used as dict keys or compared with ==. Several defects of this kind have already been found and fixed in this tree (see `git log --oneline | head -50`, commits starting with "fix:"), so look for something not covered by those.

For every candidate write a minimal reproduction script /tmp/hunt-{pid}/repro_<n>.py that uses only the public API (plus tempfile etc.), sets wn.config.data_directory to a fresh temporary directory, builds its input itself (in-memory resources for wn.add_lexical_resource or small WN-LMF files; see tests/data/*.xml for the format), prints what it observed, and exits 1 when the property is violated and 0 otherwise. Run it and keep it only if it really exits 1 on the unchanged code.

HOW TO RUN THINGS: python is /venv/bin/python; run scripts with  cd /tmp/hunt-{pid} && PYTHONPATH=/tmp/hunt-{pid} /venv/bin/python repro_1.py  (verify wn.__file__ is under /tmp/hunt-{pid}). Every shell command prints a harmless conda warning first. Note: an extension in the same file as its base is skipped by wn.add unless the base is already installed (that is documented behaviour, not a defect) - add the base first.

FINAL REPORT: a numbered list of the violations you reproduced (at most 6, most convincing first). For each: one paragraph saying what happens and which clause of the statement it breaks, how sure you are that the statement really decides the case (rather than leaving it open), the name of the repro script, its output, and - if you see one - the smallest plausible fix (file and lines). Then a short list of things you checked that turned out fine. Do not commit anything.""")
