#!/venv/bin/python
"""Run every mutant under /verif/mutants/<ID>/ against its property's quick check and
write /verif/MUTATION_RESULTS.md.  usage: tools/run_mutants.py [ID ...]"""
import glob, os, re, subprocess, sys, time
ROOT = os.path.dirname(os.path.dirname(os.path.abspath(__file__)))
props = sys.argv[1:] or sorted(os.listdir(f'{ROOT}/mutants'))
rows = []


def one(pm):
        prop, m = pm
        t0 = time.time()
        r = subprocess.run([f'{ROOT}/tools/mutate.py', m, prop], capture_output=True, text=True)
        out = r.stdout + r.stderr
        suite = re.search(r'suite: (.*)', out)
        if 'MUTANT-FAILS-SUITE' in out:
            verdict = 'discarded (fails the repository test-suite)'
        elif 'PATCH-DOES-NOT-APPLY' in out:
            verdict = 'patch does not apply'
        else:
            mm = re.search(r'RESULT (.*)', out)
            verdict = mm.group(1) if mm else 'no result'
        kind = re.search(r'kind=(\S+)', out)
        row = (prop, os.path.basename(m), verdict, kind.group(1) if kind else '', f'{time.time()-t0:.0f}s')
        print(row, flush=True)
        return row


from concurrent.futures import ThreadPoolExecutor
todo = [(prop, m) for prop in props for m in sorted(glob.glob(f'{ROOT}/mutants/{prop}/*.diff'))]
with ThreadPoolExecutor(max_workers=4) as ex:        # 4 x (4 shards) = the 16 cores
    rows = list(ex.map(one, todo))
with open(f'{ROOT}/MUTATION_RESULTS.md', 'w') as fh:
    fh.write('# Mutants (mutants/<ID>/*.diff; revert-<sha>.diff re-introduce fixed defects) '
             'against the quick checks, VERIF_SEED=1\n')
    fh.write(f'\n## run of {time.strftime("%Y-%m-%d %H:%M")} ({" ".join(props)})\n\n')
    fh.write('| property | mutant | result | first discrepancy kind | time |\n|---|---|---|---|---|\n')
    for r in rows:
        fh.write('| ' + ' | '.join(r) + ' |\n')
