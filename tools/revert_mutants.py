#!/venv/bin/python
"""For every fixed finding of known_findings.json build a mutant that re-introduces the defect
on the current tree: mutants/<ID>/revert-<sha>.diff (git revert of the fix commit in a scratch
clone; skipped with a note when the revert no longer applies cleanly)."""
import json, os, shutil, subprocess, tempfile
ROOT = os.path.dirname(os.path.dirname(os.path.abspath(__file__)))
d = json.load(open(f'{ROOT}/known_findings.json'))
work = tempfile.mkdtemp(prefix='wnrev-', dir='/dev/shm' if os.path.isdir('/dev/shm') else None)
clone = os.path.join(work, 'repo')
subprocess.check_call(['git', 'clone', '-q', '/repo', clone])
done, skipped = [], []
seen = set()
for f in d['findings']:
    if f.get('status') != 'fixed' or not f.get('commit'):
        continue
    key = (f['property'], f['commit'])
    if key in seen:
        continue
    seen.add(key)
    r = subprocess.run(['git', 'revert', '--no-commit', f['commit']], cwd=clone,
                       capture_output=True, text=True)
    if r.returncode:
        subprocess.run(['git', 'revert', '--abort'], cwd=clone, capture_output=True)
        subprocess.run(['git', 'reset', '-q', '--hard'], cwd=clone)
        skipped.append(key)
        continue
    diff = subprocess.check_output(['git', 'diff', 'HEAD'], cwd=clone, text=True)
    subprocess.run(['git', 'reset', '-q', '--hard'], cwd=clone)
    os.makedirs(f'{ROOT}/mutants/{f["property"]}', exist_ok=True)
    open(f'{ROOT}/mutants/{f["property"]}/revert-{f["commit"]}.diff', 'w').write(diff)
    done.append(key)
shutil.rmtree(work, ignore_errors=True)
print(len(done), 'revert mutants written;', len(skipped), 'skipped (revert conflicts):', skipped)
