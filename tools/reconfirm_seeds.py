#!/venv/bin/python
"""Re-confirm every seeded change on the current /repo tree: its demonstration must exit 0 on
the unchanged tree and non-zero with the patch.  Writes the outcome into meta.json
('reconfirmed': {head, unchanged_exit, changed_exit})."""
import glob, json, os, shutil, subprocess, tempfile
from concurrent.futures import ThreadPoolExecutor
ROOT = os.path.dirname(os.path.dirname(os.path.abspath(__file__)))
head = subprocess.check_output(['git', '-C', '/repo', 'rev-parse', '--short', 'HEAD'], text=True).strip()


def one(d):
    name = os.path.basename(d.rstrip('/'))
    demos = sorted(glob.glob(os.path.join(d, 'demo*.py')))
    if not demos:
        return name, None, None
    work = tempfile.mkdtemp(prefix='wnrc-', dir='/dev/shm' if os.path.isdir('/dev/shm') else None)
    try:
        clone = os.path.join(work, 'repo')
        subprocess.check_call(['git', 'clone', '-q', '/repo', clone])
        for f in glob.glob(os.path.join(d, '*.py')):
            shutil.copy(f, clone)          # demo + its helpers
        env = dict(os.environ, PYTHONPATH=clone, TMPDIR=work)
        demo = os.path.basename(demos[0])
        r0 = subprocess.run(['/venv/bin/python', demo], cwd=clone, env=env, capture_output=True,
                            timeout=900).returncode
        if subprocess.run(['git', 'apply', os.path.join(d, 'patch.diff')], cwd=clone).returncode:
            return name, r0, 'patch does not apply'
        r1 = subprocess.run(['/venv/bin/python', demo], cwd=clone, env=env, capture_output=True,
                            timeout=900).returncode
        mp = os.path.join(d, 'meta.json')
        m = json.load(open(mp))
        m['reconfirmed'] = {'head': head, 'unchanged_exit': r0, 'changed_exit': r1}
        json.dump(m, open(mp, 'w'), indent=1)
        return name, r0, r1
    finally:
        shutil.rmtree(work, ignore_errors=True)


bad = 0
with ThreadPoolExecutor(max_workers=6) as ex:
    for name, r0, r1 in ex.map(one, sorted(glob.glob(f'{ROOT}/seeded/*/'))):
        ok = r0 == 0 and isinstance(r1, int) and r1 != 0
        bad += not ok
        print(('ok  ' if ok else 'NOT ') + f'{name}: unchanged={r0} changed={r1}', flush=True)
print(bad, 'seeded changes are no longer confirmed on', head)
