"""Walk the public query API of wn and render what it reports as plain data.

The same structure is rendered from the reference database (refdb.py), so
model-vs-implementation is a structural diff with paths.  An exception raised
by a call is recorded as a value, never swallowed.
"""

from __future__ import annotations

import warnings
from typing import Any, Callable, Optional


def _all_rel_types() -> list:
    from . import gen
    return sorted(set(gen.SYNSET_RELS) | set(gen.SENSE_RELS) | set(gen.SENSE_SYNSET_RELS))


ALL_REL_TYPES = _all_rel_types()


def call(fn: Callable, *a, **kw) -> Any:
    """Result of fn, or a record of the wn.Error it raised."""
    import wn
    try:
        return fn(*a, **kw)
    except wn.Error as exc:
        return {'__raises__': 'wn.Error'}


def _raised(x: Any) -> bool:
    return isinstance(x, dict) and '__raises__' in x


def lexspec(lex) -> str:
    return f'{lex.id}:{lex.version}'


def key_of(ent) -> Any:
    """(lexicon specifier, id) of a Word/Sense/Synset, or the raise record."""
    if _raised(ent):
        return ent
    if ent._lexid == 0 or ent._id == 0:
        # placeholder synset (*INFERRED* / *ROOT*)
        return {'placeholder': ent.id, 'ili': getattr(ent, '_ili', None)}
    return f'{lexspec(ent.lexicon())}|{ent.id}'


def meta_of(x) -> dict:
    m = x.metadata() or {}
    return {k: v for k, v in m.items() if v not in ('', None)}


def form_obs(f) -> dict:
    return {
        'form': str(f), 'id': f.id or None, 'script': f.script or None,
        'tags': [[t.tag, t.category] for t in f.tags()],
        'pronunciations': [[p.value, p.variety or None, p.notation or None,
                            bool(p.phonemic), p.audio or None]
                           for p in f.pronunciations()],
    }


def relkey(name, source, target, lexicon, subtype) -> str:
    return f'{name}|{source}|{target}|{lexicon}|{subtype if subtype is not None else ""}'


def relmap_obs(ent) -> dict:
    """relation_map() keyed by the Relation value (name, source, target, lexicon, dc:type)."""
    out = {}
    for rel, tgt in ent.relation_map().items():
        k = relkey(rel.name, rel.source_id, rel.target_id, rel._lexicon, rel.subtype)
        if k in out:
            k += '#dup'
        out[k] = {'name': rel.name, 'source': rel.source_id, 'target': rel.target_id,
                  'lexicon': rel._lexicon, 'subtype': rel.subtype,
                  'meta': {k2: v for k2, v in rel.metadata().items() if v not in ('', None)},
                  'target_key': key_of(tgt)}
    return out


def ili_obs(ili) -> Any:
    if ili is None:
        return None
    if _raised(ili):
        return ili
    return {'id': ili.id, 'status': ili.status, 'definition': ili.definition() or None,
            'meta': meta_of(ili)}


def lexicon_obs(lex) -> dict:
    req = lex.requires()
    ext = lex.extends()
    return {
        'id': lex.id, 'version': lex.version, 'label': lex.label,
        'language': lex.language, 'email': lex.email, 'license': lex.license,
        'url': lex.url or None, 'citation': lex.citation or None, 'logo': lex.logo or None,
        'meta': meta_of(lex),
        'requires': {k: (lexspec(v) if v is not None else None) for k, v in req.items()},
        'extends': lexspec(ext) if ext is not None else None,
        'extensions': sorted(lexspec(x) for x in lex.extensions()),
        'extensions_all': sorted(lexspec(x) for x in lex.extensions(depth=-1)),
        'modified': lex.modified(),
    }


def word_obs(w, deep: bool = True) -> dict:
    senses = call(w.senses)
    o = {
        'id': w.id, 'pos': w.pos, 'lexicon': lexspec(w.lexicon()),
        'lemma': form_obs(w.lemma()),
        'forms': [form_obs(f) for f in w.forms()],
        'senses': [key_of(s) for s in senses] if not _raised(senses) else senses,
        'meta': meta_of(w),
    }
    if deep:
        syn = call(w.synsets)
        o['synsets'] = [key_of(s) for s in syn] if not _raised(syn) else syn
    return o


def sense_obs(s, deep: bool = True) -> dict:
    o = {
        'id': s.id, 'lexicon': lexspec(s.lexicon()),
        'word': key_of(call(s.word)),
        'synset': key_of(call(s.synset)),
        'examples': list(s.examples()),
        'counts': [[int(c), meta_of(c)] for c in s.counts()],
        'frames': sorted(s.frames()),
        'adjposition': s.adjposition() or None,
        'lexicalized': bool(s.lexicalized()),
        'meta': meta_of(s),
    }
    if deep:
        o['relation_map'] = relmap_obs(s)
        o['relations'] = {k: [key_of(t) for t in v] for k, v in s.relations().items()}
        o['get_related'] = [key_of(t) for t in s.get_related()]
        o['related_synsets'] = [key_of(t) for t in s.get_related_synsets()]
        by_type = {}
        for t in ALL_REL_TYPES:
            r = s.get_related_synsets(t)
            if r:
                by_type[t] = [key_of(x) for x in r]
        o['related_synsets_by_type'] = by_type
    return o


def synset_obs(ss, deep: bool = True) -> dict:
    senses = call(ss.senses)
    o = {
        'id': ss.id, 'lexicon': lexspec(ss.lexicon()), 'pos': ss.pos or None,
        'ili': ili_obs(call(lambda: ss.ili)),
        'definition': ss.definition(),
        'examples': list(ss.examples()),
        'lexfile': ss.lexfile() or None,
        'lexicalized': bool(ss.lexicalized()),
        'senses': [key_of(s) for s in senses] if not _raised(senses) else senses,
        'meta': meta_of(ss),
    }
    if deep:
        words = call(ss.words)
        o['words'] = [key_of(w) for w in words] if not _raised(words) else words
        lem = call(ss.lemmas)
        o['lemmas'] = [str(x) for x in lem] if not _raised(lem) else lem
        o['relation_map'] = relmap_obs(ss)
        o['relations'] = {k: [key_of(t) for t in v] for k, v in ss.relations().items()}
        related = ss.get_related()
        o['get_related'] = [key_of(t) for t in related]
        # second hop from placeholders: an inferred synset keeps answering within the Wordnet
        # it came from
        nxt = {}
        for t in related:
            k = key_of(t)
            if isinstance(k, dict):
                nxt[f"{k['placeholder']}[{k['ili']}]"] = sorted(
                    str(key_of(x)) for x in t.get_related())
        o['inferred_next'] = nxt
        o['hypernyms'] = [key_of(t) for t in ss.hypernyms()]
        o['hyponyms'] = [key_of(t) for t in ss.hyponyms()]
    return o


def _keyed(items: list, obs: Callable, deep: bool) -> dict:
    out: dict[str, Any] = {}
    for it in items:
        k = key_of(it)
        if k in out:
            # the same key twice in one listing: keep both, visibly
            k = f'{k}#dup{sum(1 for x in out if x.startswith(k))}'
        out[k] = obs(it, deep)
    return out


def observe(wordnet, deep: bool = True) -> dict:
    """Everything a Wordnet object reports, as JSON-like data."""
    o: dict[str, Any] = {}
    o['lexicons'] = {lexspec(lx): lexicon_obs(lx) for lx in wordnet.lexicons()}
    o['expanded'] = sorted(lexspec(lx) for lx in wordnet.expanded_lexicons())
    o['words'] = _keyed(wordnet.words(), word_obs, deep)
    o['senses'] = _keyed(wordnet.senses(), sense_obs, deep)
    o['synsets'] = _keyed(wordnet.synsets(), synset_obs, deep)
    o['ilis'] = sorted(
        ({'id': i.id, 'status': i.status, 'definition': i.definition() or None,
          'meta': meta_of(i)} for i in wordnet.ilis()),
        key=lambda d: (str(d['id']), str(d['definition']), str(d['meta'])))
    return o


def make_wordnet(lexicon: Optional[str] = None, lang: Optional[str] = None,
                 expand: Optional[str] = None, **kw):
    """wn.Wordnet(...) with warnings captured; returns (wordnet | raise record, warnings)."""
    import wn
    with warnings.catch_warnings(record=True) as caught:
        warnings.simplefilter('always')
        try:
            w = wn.Wordnet(lexicon, lang=lang, expand=expand, **kw)
        except wn.Error:
            return {'__raises__': 'wn.Error'}, []
    return w, [str(c.message) for c in caught if issubclass(c.category, wn.WnWarning)]


def observe_selection(lexicon: Optional[str] = None, lang: Optional[str] = None,
                      expand: Optional[str] = None, deep: bool = True) -> dict:
    w, warns = make_wordnet(lexicon, lang, expand)
    if _raised(w):
        return w
    o = observe(w, deep)
    o['warnings'] = warns
    return o


def observe_all_lexicons(deep: bool = True, expand: Optional[str] = '') -> dict:
    """Per installed lexicon: observation through Wordnet('<id>:<version>')."""
    import wn
    out = {}
    for lx in wn.lexicons():
        spec = lexspec(lx)
        out[spec] = observe_selection(spec, expand=expand, deep=deep)
    return out
