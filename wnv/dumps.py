"""Table-level views of a wn database file, through a separate read-only
sqlite3 connection (plain SQL; no wn code involved).

raw_dump      every table with rowids - the "exactly as it was" oracle
logical_dump  rowid-free: foreign keys replaced by natural keys, rows sorted,
              shared lookup tables excluded - the cross-database oracle
audit         foreign_key_check, integrity_check and an ownership audit
"""

from __future__ import annotations

import json
import sqlite3
from pathlib import Path
from typing import Any

LOOKUP_TABLES = ('ilis', 'ili_statuses', 'relation_types', 'lexfiles')


def _connect(dbfile) -> sqlite3.Connection:
    # uri read-only; no detect_types: raw stored values
    conn = sqlite3.connect(f'file:{dbfile}?mode=ro', uri=True)
    return conn


def tables(conn) -> list[str]:
    return [r[0] for r in conn.execute(
        "SELECT name FROM sqlite_master WHERE type='table' AND name NOT LIKE 'sqlite_%' "
        "ORDER BY name")]


def raw_dump(dbfile, skip: tuple = ()) -> dict:
    """{table: [rows incl. rowid]} for every table; {} if the file does not exist."""
    dbfile = Path(dbfile)
    if not dbfile.exists():
        return {}
    conn = _connect(dbfile)
    try:
        out = {}
        for t in tables(conn):
            if t in skip:
                continue
            rows = conn.execute(f'SELECT rowid, * FROM {t} ORDER BY rowid').fetchall()
            out[t] = [[_val(v) for v in row] for row in rows]
        out['__schema__'] = [r[0] for r in conn.execute(
            'SELECT sql FROM sqlite_master WHERE NOT sql ISNULL ORDER BY name')]
        return out
    finally:
        conn.close()


def _val(v: Any) -> Any:
    if isinstance(v, bytes):
        try:
            return {'bytes': v.decode('utf-8')}
        except UnicodeDecodeError:
            return {'hex': v.hex()}
    return v


def _meta(v: Any) -> Any:
    """Metadata column: JSON text/bytes -> dict with empty values dropped."""
    if v is None:
        return {}
    if isinstance(v, bytes):
        v = v.decode('utf-8')
    try:
        d = json.loads(v)
    except (ValueError, TypeError):
        return {'__unparsed__': v}
    if isinstance(d, dict):
        return {k: x for k, x in d.items() if x not in ('', None)}
    return d


_LOGICAL_QUERIES = {
    'lexicons': '''
        SELECT id || ':' || version, label, language, email, license, url, citation, logo,
               metadata, modified FROM lexicons''',
    'lexicon_dependencies': '''
        SELECT d.id || ':' || d.version, provider_id, provider_version, provider_url,
               (SELECT p.id || ':' || p.version FROM lexicons p WHERE p.rowid = provider_rowid)
          FROM lexicon_dependencies JOIN lexicons d ON d.rowid = dependent_rowid''',
    'lexicon_extensions': '''
        SELECT x.id || ':' || x.version, base_id, base_version, base_url,
               (SELECT b.id || ':' || b.version FROM lexicons b WHERE b.rowid = base_rowid)
          FROM lexicon_extensions JOIN lexicons x ON x.rowid = extension_rowid''',
    'entries': '''
        SELECT l.id || ':' || l.version, e.id, e.pos, e.metadata
          FROM entries e JOIN lexicons l ON l.rowid = e.lexicon_rowid''',
    'forms': '''
        SELECT l.id || ':' || l.version, el.id || ':' || el.version, e.id,
               f.id, f.form, f.normalized_form, f.script, f.rank
          FROM forms f JOIN lexicons l ON l.rowid = f.lexicon_rowid
          JOIN entries e ON e.rowid = f.entry_rowid
          JOIN lexicons el ON el.rowid = e.lexicon_rowid''',
    'pronunciations': '''
        SELECT el.id || ':' || el.version, e.id, f.rank, f.form,
               p.value, p.variety, p.notation, p.phonemic, p.audio
          FROM pronunciations p JOIN forms f ON f.rowid = p.form_rowid
          JOIN entries e ON e.rowid = f.entry_rowid
          JOIN lexicons el ON el.rowid = e.lexicon_rowid''',
    'tags': '''
        SELECT el.id || ':' || el.version, e.id, f.rank, f.form, t.tag, t.category
          FROM tags t JOIN forms f ON f.rowid = t.form_rowid
          JOIN entries e ON e.rowid = f.entry_rowid
          JOIN lexicons el ON el.rowid = e.lexicon_rowid''',
    'synsets': '''
        SELECT l.id || ':' || l.version, ss.id,
               (SELECT i.id FROM ilis i WHERE i.rowid = ss.ili_rowid), ss.pos, ss.lexicalized,
               (SELECT lf.name FROM lexfiles lf WHERE lf.rowid = ss.lexfile_rowid), ss.metadata
          FROM synsets ss JOIN lexicons l ON l.rowid = ss.lexicon_rowid''',
    'proposed_ilis': '''
        SELECT l.id || ':' || l.version, ss.id, p.definition, p.metadata
          FROM proposed_ilis p JOIN synsets ss ON ss.rowid = p.synset_rowid
          JOIN lexicons l ON l.rowid = ss.lexicon_rowid''',
    'senses': '''
        SELECT l.id || ':' || l.version, s.id,
               el.id || ':' || el.version, e.id, s.entry_rank,
               sl.id || ':' || sl.version, ss.id, s.synset_rank, s.lexicalized, s.metadata
          FROM senses s JOIN lexicons l ON l.rowid = s.lexicon_rowid
          JOIN entries e ON e.rowid = s.entry_rowid
          JOIN lexicons el ON el.rowid = e.lexicon_rowid
          JOIN synsets ss ON ss.rowid = s.synset_rowid
          JOIN lexicons sl ON sl.rowid = ss.lexicon_rowid''',
    'adjpositions': '''
        SELECT l.id || ':' || l.version, s.id, a.adjposition
          FROM adjpositions a JOIN senses s ON s.rowid = a.sense_rowid
          JOIN lexicons l ON l.rowid = s.lexicon_rowid''',
    'counts': '''
        SELECT l.id || ':' || l.version, sl.id || ':' || sl.version, s.id, c.count, c.metadata
          FROM counts c JOIN lexicons l ON l.rowid = c.lexicon_rowid
          JOIN senses s ON s.rowid = c.sense_rowid
          JOIN lexicons sl ON sl.rowid = s.lexicon_rowid''',
    'sense_examples': '''
        SELECT l.id || ':' || l.version, sl.id || ':' || sl.version, s.id,
               x.example, x.language, x.metadata
          FROM sense_examples x JOIN lexicons l ON l.rowid = x.lexicon_rowid
          JOIN senses s ON s.rowid = x.sense_rowid
          JOIN lexicons sl ON sl.rowid = s.lexicon_rowid''',
    'synset_examples': '''
        SELECT l.id || ':' || l.version, sl.id || ':' || sl.version, s.id,
               x.example, x.language, x.metadata
          FROM synset_examples x JOIN lexicons l ON l.rowid = x.lexicon_rowid
          JOIN synsets s ON s.rowid = x.synset_rowid
          JOIN lexicons sl ON sl.rowid = s.lexicon_rowid''',
    'definitions': '''
        SELECT l.id || ':' || l.version, sl.id || ':' || sl.version, ss.id,
               d.definition, d.language,
               (SELECT xl.id || ':' || xl.version || '|' || xs.id FROM senses xs
                  JOIN lexicons xl ON xl.rowid = xs.lexicon_rowid WHERE xs.rowid = d.sense_rowid),
               d.metadata
          FROM definitions d JOIN lexicons l ON l.rowid = d.lexicon_rowid
          JOIN synsets ss ON ss.rowid = d.synset_rowid
          JOIN lexicons sl ON sl.rowid = ss.lexicon_rowid''',
    'synset_relations': '''
        SELECT l.id || ':' || l.version, al.id || ':' || al.version, a.id,
               bl.id || ':' || bl.version, b.id, rt.type, r.metadata
          FROM synset_relations r JOIN lexicons l ON l.rowid = r.lexicon_rowid
          JOIN synsets a ON a.rowid = r.source_rowid JOIN lexicons al ON al.rowid = a.lexicon_rowid
          JOIN synsets b ON b.rowid = r.target_rowid JOIN lexicons bl ON bl.rowid = b.lexicon_rowid
          JOIN relation_types rt ON rt.rowid = r.type_rowid''',
    'sense_relations': '''
        SELECT l.id || ':' || l.version, al.id || ':' || al.version, a.id,
               bl.id || ':' || bl.version, b.id, rt.type, r.metadata
          FROM sense_relations r JOIN lexicons l ON l.rowid = r.lexicon_rowid
          JOIN senses a ON a.rowid = r.source_rowid JOIN lexicons al ON al.rowid = a.lexicon_rowid
          JOIN senses b ON b.rowid = r.target_rowid JOIN lexicons bl ON bl.rowid = b.lexicon_rowid
          JOIN relation_types rt ON rt.rowid = r.type_rowid''',
    'sense_synset_relations': '''
        SELECT l.id || ':' || l.version, al.id || ':' || al.version, a.id,
               bl.id || ':' || bl.version, b.id, rt.type, r.metadata
          FROM sense_synset_relations r JOIN lexicons l ON l.rowid = r.lexicon_rowid
          JOIN senses a ON a.rowid = r.source_rowid JOIN lexicons al ON al.rowid = a.lexicon_rowid
          JOIN synsets b ON b.rowid = r.target_rowid JOIN lexicons bl ON bl.rowid = b.lexicon_rowid
          JOIN relation_types rt ON rt.rowid = r.type_rowid''',
    'syntactic_behaviours': '''
        SELECT l.id || ':' || l.version, sb.id, sb.frame
          FROM syntactic_behaviours sb JOIN lexicons l ON l.rowid = sb.lexicon_rowid''',
    'syntactic_behaviour_senses': '''
        SELECT l.id || ':' || l.version, sb.frame, sl.id || ':' || sl.version, s.id
          FROM syntactic_behaviour_senses x
          JOIN syntactic_behaviours sb ON sb.rowid = x.syntactic_behaviour_rowid
          JOIN lexicons l ON l.rowid = sb.lexicon_rowid
          JOIN senses s ON s.rowid = x.sense_rowid
          JOIN lexicons sl ON sl.rowid = s.lexicon_rowid''',
}

_META_LAST = {'entries', 'synsets', 'proposed_ilis', 'senses', 'counts', 'sense_examples',
              'synset_examples', 'definitions', 'synset_relations', 'sense_relations',
              'sense_synset_relations'}


def logical_dump(dbfile) -> dict:
    """Rowid-free content per table, rows sorted; lookup tables excluded.

    Row counts of the raw tables are included (``__counts__``) so that a row
    whose parent is missing (and therefore drops out of a JOIN) still shows.
    """
    dbfile = Path(dbfile)
    if not dbfile.exists():
        return {}
    conn = _connect(dbfile)
    try:
        out: dict[str, Any] = {}
        counts = {}
        for t, q in _LOGICAL_QUERIES.items():
            rows = []
            for row in conn.execute(q):
                row = list(row)
                if t in _META_LAST:
                    row[-1] = _meta(row[-1])
                if t == 'lexicons':
                    row[8] = _meta(row[8])
                row = [_val(v) for v in row]
                rows.append(row)
            rows.sort(key=lambda r: json.dumps(r, sort_keys=True, default=str))
            out[t] = rows
            counts[t] = conn.execute(f'SELECT count(*) FROM {t}').fetchone()[0]
        out['__counts__'] = counts
        return out
    finally:
        conn.close()


def logical_for(dump: dict, specs: set) -> dict:
    """Restrict a logical dump to rows owned by (first column) the given lexicons."""
    out = {}
    for t, rows in dump.items():
        if t == '__counts__':
            continue
        out[t] = [r for r in rows if r[0] in specs]
    return out


# ---------------------------------------------------------------------------
# audit

_OWNED = ['entries', 'forms', 'synsets', 'synset_relations', 'definitions', 'synset_examples',
          'senses', 'sense_relations', 'sense_synset_relations', 'sense_examples', 'counts',
          'syntactic_behaviours']

_PARENTS = [
    ('forms', 'entry_rowid', 'entries'),
    ('pronunciations', 'form_rowid', 'forms'),
    ('tags', 'form_rowid', 'forms'),
    ('proposed_ilis', 'synset_rowid', 'synsets'),
    ('synset_relations', 'source_rowid', 'synsets'),
    ('synset_relations', 'target_rowid', 'synsets'),
    ('definitions', 'synset_rowid', 'synsets'),
    ('synset_examples', 'synset_rowid', 'synsets'),
    ('senses', 'entry_rowid', 'entries'),
    ('senses', 'synset_rowid', 'synsets'),
    ('sense_relations', 'source_rowid', 'senses'),
    ('sense_relations', 'target_rowid', 'senses'),
    ('sense_synset_relations', 'source_rowid', 'senses'),
    ('sense_synset_relations', 'target_rowid', 'synsets'),
    ('adjpositions', 'sense_rowid', 'senses'),
    ('sense_examples', 'sense_rowid', 'senses'),
    ('counts', 'sense_rowid', 'senses'),
    ('syntactic_behaviour_senses', 'syntactic_behaviour_rowid', 'syntactic_behaviours'),
    ('syntactic_behaviour_senses', 'sense_rowid', 'senses'),
    ('lexicon_dependencies', 'dependent_rowid', 'lexicons'),
    ('lexicon_extensions', 'extension_rowid', 'lexicons'),
    ('lexicon_extensions', 'base_rowid', 'lexicons'),
]


def audit(dbfile) -> list[str]:
    """Problems found in the database file (empty list = clean)."""
    dbfile = Path(dbfile)
    if not dbfile.exists():
        return []
    conn = _connect(dbfile)
    problems: list[str] = []
    try:
        for row in conn.execute('PRAGMA foreign_key_check'):
            problems.append(f'foreign_key_check: {row}')
        ic = conn.execute('PRAGMA integrity_check').fetchall()
        if ic != [('ok',)]:
            problems.append(f'integrity_check: {ic[:3]}')
        for t in _OWNED:
            n = conn.execute(
                f'SELECT count(*) FROM {t} WHERE lexicon_rowid NOT IN (SELECT rowid FROM lexicons)'
            ).fetchone()[0]
            if n:
                problems.append(f'{t}: {n} row(s) owned by a missing lexicon')
        for t, col, parent in _PARENTS:
            n = conn.execute(
                f'SELECT count(*) FROM {t} WHERE {col} IS NOT NULL '
                f'AND {col} NOT IN (SELECT rowid FROM {parent})').fetchone()[0]
            if n:
                problems.append(f'{t}.{col}: {n} row(s) without parent in {parent}')
        # dependency / extension links agree with the lexicons table
        q = '''SELECT count(*) FROM lexicon_dependencies d
                WHERE (provider_rowid IS NOT NULL AND NOT EXISTS
                        (SELECT 1 FROM lexicons p WHERE p.rowid = provider_rowid
                            AND p.id = provider_id AND p.version = provider_version))
                   OR (provider_rowid IS NULL AND EXISTS
                        (SELECT 1 FROM lexicons p WHERE p.id = provider_id
                            AND p.version = provider_version))'''
        n = conn.execute(q).fetchone()[0]
        if n:
            problems.append(f'lexicon_dependencies: {n} link(s) out of step with lexicons')
        q = '''SELECT count(*) FROM lexicon_extensions x
                WHERE NOT EXISTS (SELECT 1 FROM lexicons b WHERE b.rowid = base_rowid
                                     AND b.id = base_id AND b.version = base_version)'''
        n = conn.execute(q).fetchone()[0]
        if n:
            problems.append(f'lexicon_extensions: {n} base link(s) out of step with lexicons')
        return problems
    finally:
        conn.close()


def installed(dbfile) -> list[str]:
    dbfile = Path(dbfile)
    if not dbfile.exists():
        return []
    conn = _connect(dbfile)
    try:
        return [r[0] for r in conn.execute(
            "SELECT id || ':' || version FROM lexicons ORDER BY rowid")]
    finally:
        conn.close()
