"""Case predicates for known findings (see known_findings.json).

A predicate ties an open finding to the specific input shape that triggers it,
so that a different violation of the same property is still reported.
"""

from __future__ import annotations

import json


def _resources(case) -> list:
    """All resource models contained in a case (several check modules use this)."""
    out = []
    if isinstance(case, dict):
        if 'lexicons' in case and 'lmf_version' in case:
            out.append(case)
        for v in case.values():
            out.extend(_resources(v))
    elif isinstance(case, list):
        for v in case:
            out.extend(_resources(v))
    return out


def _extension_form_children(case) -> tuple[list, list]:
    """Tags and pronunciations that extension lexicons put on external lemmas/forms."""
    tags, prons = [], []
    for res in _resources(case):
        for lex in res['lexicons']:
            if not lex.get('extends'):
                continue
            for e in lex.get('entries', []):
                if not e.get('external'):
                    continue
                fs = ([e['lemma']] if e.get('lemma') else []) + \
                    [f for f in e.get('forms', []) if f.get('external')]
                for f in fs:
                    for t in f.get('tags', []):
                        tags.append([t.get('text', ''), t['category']])
                    for p in f.get('pronunciations', []):
                        prons.append([p.get('text', ''), p.get('variety') or None,
                                      p.get('notation') or None, bool(p.get('phonemic', True)),
                                      p.get('audio') or None])
    return tags, prons


def _k(x):
    return json.dumps(x, sort_keys=True, default=str)


def ext_form_children_leak(disc, case) -> bool:
    """The observed tags/pronunciations of a form are the expected ones plus
    items an extension contributed to that (base) form: they have no owner
    column, so they stay visible when the extension is not selected and
    survive its removal."""
    exp, got = disc.expected, disc.got
    if not isinstance(exp, list) or not isinstance(got, list):
        return False
    exp_k = [_k(x) for x in exp]
    extras = []
    for g in got:
        k = _k(g)
        if k in exp_k:
            exp_k.remove(k)
        else:
            extras.append(g)
    if exp_k or not extras:
        return False          # something is missing: not this finding
    tags, prons = _extension_form_children(case)
    pool = [_k(x) for x in tags + prons]
    return all(_k(x) in pool for x in extras)


def ext_form_children_leak_dicts(disc, case) -> bool:
    """Same root cause as ext_form_children_leak, for comparisons of loaded
    documents (tags/pronunciations rendered as canonical dicts)."""
    from .canon import canon
    exp, got = disc.expected, disc.got
    if not isinstance(exp, list) or not isinstance(got, list):
        return False
    exp_k = [_k(x) for x in exp]
    extras = []
    for g in got:
        k = _k(g)
        if k in exp_k:
            exp_k.remove(k)
        else:
            extras.append(g)
    if exp_k or not extras:
        return False
    pool = []
    for res in _resources(case):
        for lex in res['lexicons']:
            if not lex.get('extends'):
                continue
            for e in lex.get('entries', []):
                if not e.get('external'):
                    continue
                fs = ([e['lemma']] if e.get('lemma') else []) + \
                    [f for f in e.get('forms', []) if f.get('external')]
                for f in fs:
                    for t in f.get('tags', []) + f.get('pronunciations', []):
                        pool.append(_k(canon(t)))
    return all(_k(x) in pool for x in extras)


def ext_rows_leak(disc, case) -> bool:
    """Rows of the logical dump of tables tags/pronunciations: the database holds the
    expected rows plus rows an extension contributed to a base form (no owner column,
    so they survive the extension's removal)."""
    exp, got = disc.expected, disc.got
    if not isinstance(exp, list) or not isinstance(got, list):
        return False
    exp_k = [_k(x) for x in exp]
    extras = []
    for g in got:
        k = _k(g)
        if k in exp_k:
            exp_k.remove(k)
        else:
            extras.append(g)
    if exp_k or not extras:
        return False
    tags, prons = _extension_form_children(case)
    def nz(row):
        return [None if c == '' else c for c in row]

    pool = [_k(nz(t)) for t in tags] + \
           [_k(nz([p[0], p[1], p[2], int(p[3]), p[4]])) for p in prons]
    return all(isinstance(r, list) and _k(nz(r[4:])) in pool for r in extras)
