"""C02 - WN-LMF load/dump is a lossless round trip in every supported version."""

from __future__ import annotations

import copy

from hypothesis import strategies as st

from .. import env, gen, xmlw
from ..canon import canon, diff, project, fingerprint
from ..harness import Disc, Sub

PROPERTY = 'C02'
LEVEL = 'exploration'
RULE = ('Hypothesis draws a resource model (1-2 lexicons, LMF 1.0-1.3, extensions for >=1.1, '
        'every optional attribute/child present or absent, XML-special and non-BMP characters), '
        'a writer style and a target LMF version able to hold the resource; the independent '
        'writer produces F. Oracles: canon(lmf.load(F)) == canon(model); '
        'canon(load(dump(load(F) as v))) == project(canon(model), v); dump(load(G)) == G bytewise. '
        'Non-trivial: the resource has metadata on an example/count/relation/definition/ILI '
        'definition, an XML-special character, an external element, a pronunciation, a frame or '
        'a Requires; distinct by fingerprint of (model, target version).')
ASSUMPTIONS = [
    'element text holds no Unicode whitespace other than single interior U+0020 (DESIGN 3.1)',
    'optional attribute empty == absent; lexicalized/phonemic absent == true (appendix A)',
    'the independent writer wnv/xmlw.py is self-tested against an ElementTree reader on every case',
    'frames crossing the 1.0/1.1 boundary are projected away (two version-specific encodings)',
]

_NONTRIVIAL = {'meta:example', 'meta:count', 'meta:relation', 'meta:definition',
               'meta:ili-definition', 'special-chars', 'external-entry', 'external-synset',
               'external-sense', 'external-form', 'external-lemma', 'pronunciation',
               'frames:entry', 'frames:lexicon', 'requires'}


@st.composite
def _cases(draw):
    res = draw(gen.resources(gen.SPACED, max_lexicons=3))
    if len(res['lexicons']) > 1 and draw(st.integers(0, 3)) == 0:
        # a file may hold an extension whose base lives elsewhere, followed by other lexicons
        keep = [lx for lx in res['lexicons'][1:]]
        if any(lx.get('extends') for lx in keep):
            res = {'lmf_version': res['lmf_version'], 'lexicons': keep}
    if res['lmf_version'] == '1.3' and draw(st.integers(0, 2)) == 0:
        # constructed: a synset whose only text is an ILI definition that depends on its white
        # space (no Definition, no Example next to it)
        for lx in res['lexicons']:
            ss = next((x for x in lx.get('synsets', []) if not x.get('external')), None)
            if ss is not None:
                ss.pop('definitions', None)
                ss.pop('examples', None)
                ss['ili'] = ss.get('ili') or 'in'
                ss['ili_definition'] = {
                    'text': draw(st.sampled_from([' a  b', 'a\tb ', 'a\n  b', '  ', 'a\rb'])),
                    'meta': None, 'space': 'preserve'}
                break
    style = draw(xmlw.styles())
    has_ext = any(lx.get('extends') for lx in res['lexicons'])
    targets = ['1.1', '1.2', '1.3'] if has_ext else list(gen.VERSIONS)
    if _has_preserved(res):
        targets = targets + ['1.3', '1.3', '1.3']     # the one version that can express it
    if not has_ext and any(e.get('frames') for lx in res['lexicons']
                           for e in lx.get('entries', [])):
        targets = targets + ['1.0', '1.0', '1.0']     # entry-level frames exist in 1.0 only
    return {'resource': res, 'style': style, 'target': draw(st.sampled_from(targets))}


def _classify(case):
    tags = gen.resource_tags(case['resource'])
    tags.append('target-' + case['target'])
    kinds = ['x' if lx.get('extends') else 'p' for lx in case['resource']['lexicons']]
    if 'xp' in ''.join(kinds):
        tags.append('extension-before-plain-lexicon')
    if case['target'] != case['resource']['lmf_version']:
        tags.append('cross-version')
    if _has_preserved(case['resource']):
        tags.append('xml:space-preserve')
    if any((ss.get('ili_definition') or {}).get('space') == 'preserve'
           and not ss.get('definitions') and not ss.get('examples')
           for lx in case['resource']['lexicons'] for ss in lx.get('synsets', [])):
        tags.append('preserved-ili-definition-alone')
    return bool(_NONTRIVIAL & set(tags)), tags


def oracle(case):
    import wn.lmf as lmf
    model = case['resource']
    d = env.new_dir('c02')
    f = xmlw.write(model, d / 'in.xml', case['style'])
    # writer self-test (trusted base): independent reader must give the model back
    back = xmlw.ref_load(f)
    dd = diff(canon(model), canon(back))
    if dd:
        raise env.HarnessError(f'xmlw self-test failed: {dd[:3]}')
    out = []
    # 1. reader vs model
    loaded = lmf.load(f, progress_handler=None)
    for p, e, g in diff(canon(model), canon(loaded)):
        out.append(Disc('load-differs-from-document', p, e, g))
    if out:
        return out
    # 2. round trip at the target version
    v = case['target']
    r2 = copy.deepcopy(loaded)
    r2['lmf_version'] = v
    g = d / 'out.xml'
    lmf.dump(r2, g)
    reloaded = lmf.load(g, progress_handler=None)
    expected = canon(project(model, v))
    for p, e, gg in diff(expected, canon(reloaded)):
        out.append(Disc('roundtrip-loses-or-alters', p, e, gg, note=f'target={v}'))
    # 3. fixed point
    g2 = d / 'out2.xml'
    lmf.dump(reloaded, g2)
    if v != '1.3' and _has_preserved(model):
        # version v cannot express white space kept by xml:space: the first dump is not the
        # dump of anything load() returns for v; the fixed point starts one step later
        g, g2 = g2, d / 'out3.xml'
        lmf.dump(lmf.load(g, progress_handler=None), g2)
    b1, b2 = g.read_bytes(), g2.read_bytes()
    if b1 != b2:
        i = next((k for k in range(min(len(b1), len(b2))) if b1[k] != b2[k]),
                 min(len(b1), len(b2)))
        out.append(Disc('dump-load-dump-not-fixed-point', f'byte {i}',
                        b1[max(0, i - 40):i + 40].decode('utf-8', 'replace'),
                        b2[max(0, i - 40):i + 40].decode('utf-8', 'replace')))
    return out


def _has_preserved(x) -> bool:
    if isinstance(x, dict):
        return x.get('space') == 'preserve' or any(_has_preserved(v) for v in x.values())
    if isinstance(x, list):
        return any(_has_preserved(v) for v in x)
    return False


def _fp(case):
    return fingerprint([case['resource'], case['target']])


SUBS = [
    Sub('roundtrip', oracle, _classify, strategy=lambda tier: _cases(),
        budget={'quick': 120, 'thorough': 2000}, fingerprint=_fp,
        require_tags=('extension', 'cross-version', 'meta:example', 'text-over-8k',
                      'extension-before-plain-lexicon', 'xml:space-preserve',
                      'preserved-ili-definition-alone')),
]
