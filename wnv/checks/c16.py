"""C16 - Results are a function of database content and arguments only."""

from __future__ import annotations

import json
import copy
import os
import subprocess
import sys

from hypothesis import strategies as st

from .. import env, xmlw
from ..canon import diff, fingerprint
from ..env import VERIF_ROOT
from ..harness import Disc, Sub

PROPERTY = 'C16'
LEVEL = 'exploration'
RULE = ('Hypothesis draws a lexicon biased towards tie shapes: a hypernym graph on 4-7 synsets with '
        'multiple inheritance (>= 2 lowest common hypernyms at different distances, >= 2 shortest '
        'paths), entries with >= 2 senses and >= 2 subcategorization frames, several relations '
        'lacking their reverse and pointing at one target, duplicated relations, satellite '
        'adjectives. The database is built once; a fixed battery (every public query, navigation, '
        'relation, taxonomy, similarity, IC, Morphy, validate, dump and export call; lists and '
        'mappings in returned order, floats by repr, written files in full) runs in subprocesses '
        'started with different PYTHONHASHSEED values (quick 4, thorough 8), twice per process '
        'with a burst of read-only calls in between; a second lexicon without relations shares '
        'ILIs with the first and the battery is run per Wordnet configuration (lexicon x expand), '
        'visited in a different order in every process and in reverse order in the second pass. '
        'Oracle (metamorphic): all transcripts of a configuration are '
        'identical, and the raw table dump is unchanged by the read-only calls. Non-trivial: the '
        'database contains at least one tie shape; distinct by database; evaluations = databases.')
ASSUMPTIONS = [
    'set-typed results (Morphy) are sorted before comparison: a set has no order to preserve',
    'only the hash seeds tried are covered (0..3 quick, 0..7 thorough)',
]

POS = ['n', 'n', 'n', 'v', 'a', 's']


@st.composite
def _cases(draw):
    n = draw(st.integers(4, 7))
    pos = draw(st.sampled_from(['n', 'n', 'v']))
    version = draw(st.sampled_from(['1.0', '1.1', '1.3']))
    synsets = []
    for i in range(n):
        rels = []
        # DAG-biased hypernym edges towards lower indices, with multiple inheritance
        for j in range(i):
            if draw(st.integers(0, 2)) > 0:
                rels.append({'target': f'd-s{j}', 'relType':
                             draw(st.sampled_from(['hypernym', 'hypernym', 'instance_hypernym'])),
                             'meta': None})
        # non-reciprocated / duplicated extra relations
        for _ in range(draw(st.integers(0, 2))):
            t = draw(st.integers(0, n - 1))
            r = {'target': f'd-s{t}', 'relType': draw(st.sampled_from(
                ['similar', 'also', 'mero_part', 'hyponym', 'antonym'])), 'meta': None}
            rels.append(r)
            if draw(st.integers(0, 3)) == 0:
                rels.append(dict(r))
        # several non-DC metadata attributes on one element: their order in exported bytes
        full = {'status': 'checked', 'note': f'n{i}', 'confidenceScore': '0.8', 'source': 's'}
        ss = {'id': f'd-s{i}', 'ili': f'i{i}' if i % 4 else '', 'partOfSpeech': pos,
              'meta': dict(full) if i % 2 else None,
              'definitions': [{'text': f'def {i}', 'meta': dict(full) if i % 3 == 0 else None}]}
        if rels:
            ss['relations'] = rels
        synsets.append(ss)
    if draw(st.booleans()):
        synsets.append({'id': 'd-adj', 'ili': '', 'partOfSpeech': 's', 'meta': None})
    entries = []
    k = 0
    frames_pool = ['Somebody ----s', 'Something ----s', 'Somebody ----s something', 'It ----s']
    lexframes = []
    for i, ss in enumerate(synsets):
        for e_i in range(draw(st.integers(1, 2))):
            eid = f'd-e{k}'
            senses = [{'id': f'd-e{k}-a', 'synset': ss['id'], 'meta': None}]
            other = synsets[draw(st.integers(0, len(synsets) - 1))]
            if other is not ss:
                senses.append({'id': f'd-e{k}-b', 'synset': other['id'], 'meta': None,
                               'relations': [{'target': f'd-e0-a', 'relType': 'antonym',
                                              'meta': None}]})
            e = {'id': eid, 'meta': None,
                 'lemma': {'writtenForm': draw(st.sampled_from(['cat', 'dog', 'axe', 'box', 'ax',
                                                                 'axes', 'wolf', f'w{k}'])),
                           'partOfSpeech': ss['partOfSpeech']},
                 'senses': senses}
            nfr = draw(st.integers(0, 3))
            if nfr:
                chosen = frames_pool[:nfr]
                if version == '1.0':
                    e['frames'] = [{'subcategorizationFrame': f,
                                    'senses': [s['id'] for s in senses[:1 + (j % 2)]]}
                                   for j, f in enumerate(chosen)]
                else:
                    for f in chosen:
                        if f not in [x['subcategorizationFrame'] for x in lexframes]:
                            lexframes.append({'id': f'd-fr{len(lexframes)}',
                                              'subcategorizationFrame': f})
                    ids = {x['subcategorizationFrame']: x['id'] for x in lexframes}
                    for j, s in enumerate(senses):
                        s['subcat'] = [ids[f] for f in chosen[j:]] or [ids[chosen[0]]]
            entries.append(e)
            k += 1
    lex = {'id': 'd', 'version': '1', 'label': 'determinism', 'language': 'en', 'email': 'e',
           'license': 'l', 'meta': None, 'entries': entries, 'synsets': synsets}
    if lexframes:
        lex['frames'] = lexframes
    # a second lexicon without relations of its own that shares ILIs with the first:
    # its taxonomy exists only through expand lexicons, so results depend on the
    # Wordnet configuration - and must not depend on which configuration was used before
    # it has the deepest concepts and few of the others, so that several of its inferred
    # hypernyms are placeholders (which all share one id and one row id)
    tsyn = [{'id': f't-s{i}', 'ili': ss['ili'], 'partOfSpeech': ss['partOfSpeech'],
             'meta': None} for i, ss in enumerate(synsets)
            if ss['ili'] and (i >= n - 2 or draw(st.integers(0, 2)) == 0)]
    tent = [{'id': f't-e{i}', 'meta': None,
             'lemma': {'writtenForm': f'tw{i}', 'partOfSpeech': ss['partOfSpeech']},
             'senses': [{'id': f't-e{i}-a', 'synset': ss['id'], 'meta': None}]}
            for i, ss in enumerate(tsyn)]
    lexicons = [lex]
    if tsyn:
        # 't' declares several dependencies (one of them never installed): the default expand
        # set of Wordnet('t:1') is built from them
        for k in range(3):
            lexicons.append({'id': f'u{k}', 'version': '1', 'label': f'dependency {k}',
                             'language': 'en', 'email': 'e', 'license': 'l', 'meta': None,
                             'synsets': [{'id': f'u{k}-s0', 'ili': tsyn[0]['ili'],
                                          'partOfSpeech': tsyn[0]['partOfSpeech'],
                                          'meta': None}]})
        tlex = {'id': 't', 'version': '1', 'label': 'translation', 'language': 'es',
                'email': 'e', 'license': 'l', 'meta': None, 'entries': tent, 'synsets': tsyn}
        if version != '1.0':
            tlex['requires'] = [{'id': 'u1', 'version': '1'}, {'id': 'd', 'version': '1'},
                                {'id': 'zz', 'version': '9'}, {'id': 'u0', 'version': '1'},
                                {'id': 'u2', 'version': '1'}, {'id': 'yy', 'version': '9'}]
        lexicons.append(tlex)
        # another version of it with the same ids and ILIs: selected together, both copies of
        # every concept turn up among the common hypernyms
        t2 = copy.deepcopy(tlex)
        t2['version'] = '2'
        lexicons.append(t2)
    return {'resource': {'lmf_version': version, 'lexicons': lexicons}}


def _anc(edges, x):
    seen, todo = {x}, [x]
    while todo:
        y = todo.pop()
        for z in edges.get(y, ()):
            if z not in seen:
                seen.add(z)
                todo.append(z)
    return seen


def _classify(case):
    lex = case['resource']['lexicons'][0]
    edges = {}
    tags = set()
    for ss in lex['synsets']:
        hyp = [r['target'] for r in ss.get('relations', [])
               if r['relType'] in ('hypernym', 'instance_hypernym')]
        edges[ss['id']] = set(hyp)
        if len(set(hyp)) >= 2:
            tags.add('multiple-inheritance')
        rs = [(r['relType'], r['target']) for r in ss.get('relations', [])]
        if len(set(rs)) < len(rs):
            tags.add('duplicate-relation')
    ids = list(edges)
    for a in ids:
        for b in ids:
            if a < b:
                common = _anc(edges, a) & _anc(edges, b)
                # maximal-depth candidates: members of common not above another member
                low = [c for c in common if not any(c in _anc(edges, d) - {d} for d in common)]
                if len(low) >= 2:
                    tags.add('several-lowest-common-hypernyms')
    for e in lex['entries']:
        nfr = len(e.get('frames', [])) or max((len(s.get('subcat', [])) for s in e['senses']),
                                              default=0)
        if nfr >= 2 and len(e['senses']) >= 2:
            tags.add('several-frames-several-senses')
    tags.add('lmf-' + case['resource']['lmf_version'])
    nt = bool(tags & {'multiple-inheritance', 'several-lowest-common-hypernyms',
                      'several-frames-several-senses', 'duplicate-relation'})
    return nt, sorted(tags)


def oracle(case):
    import wn
    work = env.new_dir('c16')
    xml = xmlw.write(case['resource'], work / 'src.xml', None)
    db = env.fresh_db()
    wn.add(xml, progress_handler=None)
    env.close_pool()
    seeds = list(range(8 if os.environ.get('WNV_TIER') == 'thorough' else 4))
    configs = [['files'], ['d:1', ''], [None, None]]
    if len(case['resource']['lexicons']) > 1:
        configs += [['t:1', ''], ['t:1', 'd:1'], ['t:1 d:1', None], ['t:1', None],
                    ['t:1 t:2', 'd:1']]
    outs = {}
    procs = []
    for hs in seeds:
        scratch = work / f'hs{hs}'
        scratch.mkdir()
        # every process visits the configurations in another order
        k = hs % len(configs)
        order = configs[k:] + configs[:k]
        if hs % 2:
            order = list(reversed(order))
        e = dict(os.environ, PYTHONHASHSEED=str(hs),
                 PYTHONPATH=str(VERIF_ROOT) + os.pathsep + os.environ.get('PYTHONPATH', ''))
        procs.append((hs, subprocess.Popen(
            [sys.executable, '-m', 'wnv.battery', str(db.dir), str(xml), str(scratch),
             json.dumps(order)],
            env=e, cwd=str(VERIF_ROOT), stdout=subprocess.PIPE, stderr=subprocess.PIPE)))
    out: list[Disc] = []
    for hs, p in procs:
        so, se = p.communicate()
        if p.returncode != 0:
            tail = se.decode('utf-8', 'replace')[-1500:]
            if '/wn/' in tail and 'wnv/battery' in tail:
                out.append(Disc('battery-crash', f'hashseed={hs}', 'battery completes', tail))
                continue
            raise env.HarnessError(f'battery failed (hashseed {hs}): {tail}')
        outs[hs] = json.loads(so.decode('utf-8'))
    if out:
        return out
    ref = outs[seeds[0]]
    for hs in seeds:
        o = outs[hs]
        for cfg in o['first']:
            for p, e_, g in diff(o['first'][cfg], o['second'][cfg], limit=2):
                out.append(Disc('repeated-call-differs', f'{cfg} ' + _where(o['first'][cfg], p),
                                e_, g, note=f'hashseed={hs}'))
            for rec in o['first'][cfg]:
                if rec and rec[0] == 'same-object' and rec[2] != rec[3]:
                    out.append(Disc('later-call-on-same-object-differs', f'{cfg} {rec[1]}',
                                    rec[2], rec[3], note=f'hashseed={hs}: asked again after '
                                    'closure() calls on the same object'))
                    break
        if o['raw_before'] != o['raw_after']:
            out.append(Disc('read-only-calls-changed-database', f'hashseed={hs}',
                            o['raw_before'], o['raw_after']))
    for hs in seeds[1:]:
        for cfg in ref['first']:
            for p, e_, g in diff(ref['first'][cfg], outs[hs]['first'][cfg], limit=2):
                out.append(Disc('differs-across-processes', f'{cfg} ' + _where(ref['first'][cfg], p),
                                e_, g, note=f'hashseed {seeds[0]} vs {hs} (different hash seed '
                                            f'and different order of earlier read-only calls)'))
        if len(out) > 8:
            break
    return out


def _strip(t):
    """File names embed the run tag; contents are compared."""
    return t


def _where(transcript, path):
    """Name the battery record a diff path points into."""
    try:
        idx = int(path.split(']')[0].lstrip('['))
        rec = transcript[idx]
        head = [x for x in rec[:3] if isinstance(x, (str, bool))]
        rest = path.split(']', 1)[1]
        field = rest.split(']')[0].lstrip('[') if rest.startswith('[') else ''
        return f'{"/".join(map(str, head[:1]))}[{field}]'
    except Exception:  # noqa: BLE001
        return path


def _sample(case):
    lex = case['resource']['lexicons'][0]
    return {'lmf_version': case['resource']['lmf_version'],
            'synsets': [(s['id'], s['partOfSpeech'],
                         [(r['relType'], r['target']) for r in s.get('relations', [])])
                        for s in lex['synsets']],
            'entries': [(e['id'], e['lemma']['writtenForm'],
                         [(s['id'], s['synset'], s.get('subcat')) for s in e['senses']],
                         e.get('frames')) for e in lex['entries']]}


SUBS = [
    Sub('hash-seeds', oracle, _classify, strategy=lambda tier: _cases(),
        budget={'quick': 6, 'thorough': 20}, sample=_sample, purge_every=2,
        fingerprint=lambda c: fingerprint(c),
        require_tags=('multiple-inheritance', 'several-frames-several-senses')),
]
