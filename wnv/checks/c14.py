"""C14 - Similarity metrics equal their formulas, are symmetric and bounded."""

from __future__ import annotations

import math

from hypothesis import strategies as st

from .. import graphs as G
from ..harness import Disc, Sub

PROPERTY = 'C14'
LEVEL = 'exploration'
RULE = ('A case is a batch of graph-lab hypernym digraphs (as in C13: edge masks with self-loops, '
        'hypernym/instance_hypernym labels, part-of-speech layouts all-n, a/s mix, or several '
        'classes n/v/a/s), each with a taxonomy depth argument D>=1 for lch and one or two '
        'information-content weight assignments: either arbitrary positive weights per synset '
        '(total = class maximum x slack, so probabilities lie in (0,1]; repeated values make '
        'zero-IC special cases frequent) or wn.ic.compute() over a drawn corpus of one word per '
        'synset. Families: every labelled digraph on n<=3 nodes in three labelled variants, '
        'Hypothesis-drawn 4-node graphs, random 5-8 node graphs (DAG-biased, cycle-biased, forest, '
        'diamond-stack, layered, two-LCS gadget). For every ordered pair (all pairs for n<=5; '
        'above that the pairs with several LCS plus 8 drawn ones, both orders) and simulate_root in {False, True}: path, wup, lch, and res/jcn/lin per weight '
        'assignment are compared with the documented formulas evaluated on brute-force reference '
        'graph functions (value must lie in the set of formula values over all lowest common '
        'hypernyms); symmetry, bounds, f(a,b)<=f(a,a) and the error conditions are checked on '
        'all graphs. Non-trivial graph: a pair with >=2 lowest common hypernyms, an a/s mix or '
        'several part-of-speech classes; the class histogram counts graphs, not batches. Sub '
        'split-lexicons: graphs of 2-6 nodes divided between a lexicon and an extension of it, '
        'queried through a Wordnet over both, given weights, same oracle. Sub interlingual: a '
        'sparse lexicon expanded over others (C13\'s generator); the ILI-mapped reference graph '
        '(placeholders as nodes) is fed to the same oracle for path/wup/lch over all pairs of real '
        'synsets.')
ASSUMPTIONS = [
    'formula values are asserted where C13 defines their ingredients: path/lch on every graph '
    'without simulate_root and on DAGs with it; wup/res/jcn/lin on DAGs',
    'shortest-path length is C13\'s (min over common hypernyms c of d(a,c)+d(b,c)); depth of an '
    'LCS is max_depth; with simulate_root the statement does not say whether k counts the '
    'simulated root, so k = max_depth(l)+1 with or without it is accepted',
    'any lowest common hypernym may be the one used ("a lowest common hypernym")',
    'Lin denominator IC(c1)+IC(c2) (the IC(c1)+IC(c0) of the docs is taken as a typo: it '
    'contradicts the demanded symmetry)',
    'IC metrics are only compared for pairs all of whose common hypernyms share their '
    'part-of-speech class (documented use of wn.ic)',
    'relative tolerance 1e-12; where a Jiang-Conrath denominator is within rounding of zero either '
    'infinity or a huge value is accepted; Lin is not compared when IC(c1)+IC(c2) is zero',
    'information-content weights are positive with probability in (0,1] (arbitrary mode) or '
    'whatever wn.ic.compute returns (compute mode; its correctness is C15\'s subject)',
]
SHARDS = {'quick': 4, 'thorough': 16}

_REL = 1e-12
_MAX_PER_KIND = 4
_MAX_DISCS = 24
_IC_POS = 'nvar'


def _close(a, b):
    if isinstance(a, bool) or isinstance(b, bool):
        return False
    if not isinstance(a, (int, float)) or not isinstance(b, (int, float)):
        return False
    if math.isinf(a) or math.isinf(b):
        return a == b
    return math.isclose(a, b, rel_tol=_REL, abs_tol=1e-300)


def _in(value, candidates):
    return any(_close(value, c) for c in candidates)


# ---------------------------------------------------------------------------
# oracle

class _Out:
    def __init__(self):
        self.discs = []
        self.kinds = {}

    def add(self, disc):
        k = self.kinds.get(disc.kind, 0)
        if k < _MAX_PER_KIND and len(self.discs) < _MAX_DISCS:
            self.discs.append(disc)
        self.kinds[disc.kind] = k + 1

    def full(self):
        return len(self.discs) >= _MAX_DISCS


def _build_freq(lab, i, d, w, ic, disc):
    """Freq mapping for one weight assignment (None when compute itself failed)."""
    import wn.ic
    ids = lab.ids(i)
    n = d['n']
    if ic['mode'] == 'compute':
        tokens = [f'w{k}' for k in ic['corpus']]
        st_, val = G.guarded(wn.ic.compute, tokens, w, distribute_weight=ic['distribute'],
                             smoothing=ic['smoothing'])
        if st_ != 'ok':
            kind = 'unexpected-wn-error' if st_ == 'wn.Error' else f'exception:{val[0]}'
            disc(kind, 'ic.compute' + (f' in {val[1]}' if st_ == 'exception' else ''),
                 'weights', val if st_ == 'wn.Error' else val[2])
            return None
        return val
    freq = {p: {} for p in _IC_POS}
    for k in range(n):
        cls = G.pos_class(d['pos'][k])
        if cls in freq:
            freq[cls][ids[k]] = float(ic['weights'][k])
    for p in _IC_POS:
        vals = list(freq[p].values())
        freq[p][None] = (max(vals) * float(ic['slack'])) if vals else 1.0
    return freq


def _check_graph(lab, i, desc, out, phase):
    """phase 'taxonomy': path/wup/lch; phase 'ic': res/jcn/lin."""
    import wn.similarity as S

    d = G.norm(desc)
    n = d['n']
    g = G.Graph.of(d)
    cyclic = G.has_cycle(g)
    gr = None if cyclic else G.with_root(g)
    R = n
    D = int(desc.get('D', 1))
    where = f'g{i}[n={n} mask={d["mask"]} pos={d["pos"]}]'
    note = 'cyclic' if cyclic else 'dag'

    def disc(kind, what, expected, got, extra=''):
        out.add(Disc(kind, f'{where} {what}', expected, got, (note + ' ' + extra).strip()))

    w = lab.wordnet(i)
    ss = lab.synsets(i, w)
    ids = lab.ids(i)
    cls = [G.pos_class(p) for p in d['pos']]
    pairs = [tuple(p) for p in (desc.get('pairs') or
                                [[a, b] for a in range(n) for b in range(n)])]
    # symmetry needs both orders, f(a,b) <= f(a,a) needs the diagonal
    todo = sorted(set(pairs) | {(b, a) for a, b in pairs} | {(a, a) for a, _ in pairs}
                  | {(b, b) for _, b in pairs})

    res = {}          # (fn, a, b, sr|ic index) -> ('ok', value) | ('wn.Error', msg)

    def run(fn_name, key, fn, *args, **kwargs):
        st_, val = G.guarded(fn, *args, **kwargs)
        if st_ == 'exception':
            disc(f'exception:{val[0]}', f'in {val[1]}', 'no exception', val[2],
                 f'{fn_name}{key[1:]}')
            return None
        res[key] = (st_, val)
        return res[key]

    def expect_error(fn_name, key, r, why):
        if r is not None and r[0] == 'ok':
            disc(f'{fn_name}-no-error', f'{fn_name}{key[1:]}', f'wn.Error ({why})', r[1])

    def expect_value(fn_name, key, r, candidates, extra=''):
        if r is None:
            return
        if r[0] != 'ok':
            disc(f'{fn_name}-unexpected-error', f'{fn_name}{key[1:]}',
                 sorted(set(candidates)), r[1], extra)
        elif not _in(r[1], candidates):
            disc(f'{fn_name}-value', f'{fn_name}{key[1:]}', sorted(set(candidates)), r[1], extra)

    # -- taxonomy metrics ------------------------------------------------------
    for sr in ((False, True) if phase == 'taxonomy' else ()):
        rg = gr if sr else g              # None: cyclic graph with simulated root
        for a, b in todo:
            sa, sb = ss[a], ss[b]
            compatible = cls[a] == cls[b]
            shared = bool(G.common(g, a, b)) or sr

            kp, kw, kl = ('path', a, b, sr), ('wup', a, b, sr), ('lch', a, b, sr)
            rp = run('path', kp, S.path, sa, sb, simulate_root=sr)
            rw = run('wup', kw, S.wup, sa, sb, simulate_root=sr)
            rl = run('lch', kl, S.lch, sa, sb, D, simulate_root=sr)
            if not compatible:
                for name, key, r in (('path', kp, rp), ('wup', kw, rw), ('lch', kl, rl)):
                    expect_error(name, key, r, 'incompatible parts of speech')
                continue
            dist = None
            if rg is not None:
                dist = G.sp_len(rg, a, b)
            # path
            if rp is not None:
                if rp[0] != 'ok':
                    disc('path-unexpected-error', f'path{kp[1:]}', 'a number', rp[1])
                else:
                    v = rp[1]
                    if not (isinstance(v, (int, float)) and 0 <= v <= 1):
                        disc('path-out-of-bounds', f'path{kp[1:]}', '[0, 1]', v)
                    elif (v == 1) != (a == b):
                        disc('path-one-iff-identical', f'path{kp[1:]}',
                             '1 exactly for identical synsets', v)
                    elif (v == 0) != (not shared):
                        disc('path-zero-iff-unconnected', f'path{kp[1:]}',
                             '0 exactly when unconnected', v)
                    elif rg is not None:
                        exp = 0.0 if dist is None else 1 / (dist + 1)
                        if not _close(v, exp):
                            disc('path-value', f'path{kp[1:]}', exp, v)
            # lch
            if not shared:
                expect_error('lch', kl, rl, 'no common hypernym')
                expect_error('wup', kw, rw, 'no common hypernym')
                continue
            if rl is not None:
                if rl[0] != 'ok':
                    disc('lch-unexpected-error', f'lch{kl[1:]}', 'a number', rl[1])
                elif rg is not None:
                    expect_value('lch', kl, rl, [-math.log((dist + 1) / (2 * D))], f'D={D}')
            # wup
            if rw is not None:
                if rw[0] != 'ok':
                    disc('wup-unexpected-error', f'wup{kw[1:]}', 'a number', rw[1])
                else:
                    v = rw[1]
                    if not (isinstance(v, (int, float)) and 0 < v <= 1):
                        disc('wup-out-of-bounds', f'wup{kw[1:]}', '(0, 1]', v)
                    elif a == b and v != 1:
                        disc('wup-identical-not-one', f'wup{kw[1:]}', 1, v)
                    elif rg is not None and not cyclic:
                        cands = []
                        for l in sorted(G.lowest_common(rg, a, b)):
                            ii, jj = G.sp_len(rg, a, l), G.sp_len(rg, b, l)
                            ks = {(0 if l == R else G.max_depth(g, l)) + 1,
                                  G.max_depth(rg, l) + 1}
                            cands += [2 * k / (ii + jj + 2 * k) for k in sorted(ks)]
                        expect_value('wup', kw, rw, cands)

    # -- f(a,b) <= f(a,a); symmetry ------------------------------------------------
    for (fn, a, b, sr), r in sorted(res.items()):
        if r[0] == 'ok' and a != b:
            for x in (a, b):
                self_ = res.get((fn, x, x, sr))
                if self_ and self_[0] == 'ok' and r[1] > self_[1] and not _close(r[1], self_[1]):
                    disc(f'{fn}-exceeds-self-similarity', f'{fn}({a},{b},{sr})',
                         f'<= {fn}({x},{x}) = {self_[1]}', r[1])
    _symmetry(res, disc)

    # -- information-content metrics -------------------------------------------------
    for q, ic in enumerate((desc.get('ics') or []) if phase == 'ic' else []):
        freq = _build_freq(lab, i, d, w, ic, disc)
        if freq is None:
            continue
        res_ic = {}

        def info(k):
            return -math.log(freq[cls[k]][ids[k]] / freq[cls[k]][None])

        try:
            for k in range(n):
                if cls[k] in _IC_POS:
                    info(k)
        except (KeyError, ValueError, ZeroDivisionError, TypeError) as exc:
            disc('ic-weights-unusable', f'ic{q}', 'a positive weight and total for every synset',
                 repr(exc), ic['mode'])
            continue

        for a, b in todo:
            sa, sb = ss[a], ss[b]
            compatible = cls[a] == cls[b]
            com = G.common(g, a, b)
            if compatible and (cls[a] not in _IC_POS or any(cls[c] != cls[a] for c in com)):
                continue                 # common hypernyms outside the pair's IC table
            results = {}
            # Lin's formula has no value when IC(c1) + IC(c2) = 0 with non-zero terms (only
            # possible for weights with probability > 1): nothing is demanded of lin there
            lin_undefined = False
            if compatible and com:
                s1, s2 = info(a), info(b)
                lin_undefined = (s1 != 0 and s2 != 0
                                 and abs(s1 + s2) <= 1e-9 * (abs(s1) + abs(s2)))
            for name, fn in (('res', S.res), ('jcn', S.jcn), ('lin', S.lin)):
                key = (name, a, b, f'ic{q}')
                st_, val = G.guarded(fn, sa, sb, freq)
                if name == 'lin' and lin_undefined:
                    continue
                if st_ == 'exception':
                    disc(f'exception:{val[0]}', f'in {val[1]}', 'no exception', val[2],
                         f'{name}{key[1:]} {ic["mode"]}')
                else:
                    results[name] = (key, (st_, val))
            if not compatible or not com:
                why = 'incompatible parts of speech' if not compatible else 'no common hypernym'
                for name, (key, r) in results.items():
                    expect_error(name, key, r, why)
                    res_ic[key] = r
                continue
            for name, (key, r) in results.items():
                res_ic[key] = r
                if r[0] != 'ok':
                    disc(f'{name}-unexpected-error', f'{name}{key[1:]}', 'a number', r[1],
                         ic['mode'])
            if cyclic:
                continue
            ic1, ic2 = info(a), info(b)
            lcs = sorted(G.lowest_common(g, a, b))
            if 'res' in results and results['res'][1][0] == 'ok':
                key, r = results['res']
                # documented: the maximum information content over the common subsumers,
                # "more efficiently computed using the lowest common hypernyms" - so the
                # maximum over either set, not the value of just any lowest common hypernym
                expect_value('res', key, r, [max(info(l) for l in lcs),
                                             max(info(c) for c in com)], ic['mode'])
            if 'jcn' in results and results['jcn'][1][0] == 'ok':
                key, r = results['jcn']
                ok = False
                cands = []
                for l in lcs:
                    icl = info(l)
                    if ic1 == 0 and ic2 == 0 and icl == 0:
                        cands.append(0)
                        ok = ok or r[1] == 0
                        continue
                    den = ic1 + ic2 - 2 * icl
                    scale = abs(ic1) + abs(ic2) + 2 * abs(icl)
                    if abs(den) <= 1e-9 * scale:
                        cands.append('inf or huge')
                        ok = ok or (isinstance(r[1], (int, float))
                                    and (math.isinf(r[1]) or abs(r[1]) * scale >= 1e8))
                    else:
                        cands.append(1 / den)
                        ok = ok or _close(r[1], 1 / den)
                if not ok:
                    disc('jcn-value', f'jcn{key[1:]}', cands, r[1], ic['mode'])
            if 'lin' in results and results['lin'][1][0] == 'ok':
                key, r = results['lin']
                if ic1 == 0 or ic2 == 0:
                    expect_value('lin', key, r, [0.0], ic['mode'])
                else:
                    expect_value('lin', key, r, [2 * info(l) / (ic1 + ic2) for l in lcs],
                                 ic['mode'])
        _symmetry(res_ic, disc)


def _symmetry(res, disc):
    for (fn, a, b, x), r in sorted(res.items(), key=lambda kv: str(kv[0])):
        if a >= b or (fn, b, a, x) not in res:
            continue
        o = res[(fn, b, a, x)]
        if r[0] != o[0]:
            disc(f'{fn}-asymmetric', f'{fn}({a},{b},{x})', r, o, 'error one way, value the other')
        elif r[0] == 'ok' and not _close(r[1], o[1]):
            disc(f'{fn}-asymmetric', f'{fn}({a},{b},{x})', r[1], o[1])


def oracle(case):
    out = _Out()
    lab = G.Lab(case['graphs'])
    # all taxonomy-based metrics first, so that a failure of the IC-based ones in an earlier
    # graph of the batch does not decide which discrepancy is reported first
    for phase in ('taxonomy', 'ic'):
        for i, desc in enumerate(case['graphs']):
            _check_graph(lab, i, desc, out, phase)
            if out.full():
                break
    return out.discs


# ---------------------------------------------------------------------------
# classification, enumeration, strategies

_NONTRIVIAL = {'>=2-LCS', 'a/s-mix', 'mixed-pos-classes'}


def _classify(case):
    tags = []
    non = False
    for d in case['graphs']:
        t = G.features(d)
        if d.get('family'):
            t.append('family:' + d['family'])
        for ic in d.get('ics') or []:
            t.append('ic:' + ic['mode'])
            if ic['mode'] == 'weights' and len(set(ic['weights'])) < len(ic['weights']):
                t.append('ic:equal-weights')
        non = non or bool(set(t) & _NONTRIVIAL)
        tags.extend(t)
    return non, tags


def _sample(case):
    return {'graphs': len(case['graphs']), 'first': case['graphs'][:2]}


_WEIGHT_POOL = [1.0, 2.0, 2.0, 5.0, 0.5, 7.25, 3.0, 1.0]


def _with_words(d):
    d['words'] = [{'form': f'w{k}', 'pos': G.pos_class(d['pos'][k]), 'nodes': [k]}
                  for k in range(d['n'])]
    return d


def _derived(n, mask, variant):
    """Enumerated graph with D and weights as a fixed function of (n, mask, variant)."""
    h = G.mix(mask * 131 + n * 17 + variant)
    if variant == 0:            # nouns, compute() over a derived corpus
        d = _with_words(G.describe(n, mask))
        corpus = [k for k in range(n) for _ in range((h >> (3 * k)) & 3)]
        d['ics'] = [{'mode': 'compute', 'corpus': corpus, 'distribute': bool(h >> 20 & 1),
                     'smoothing': [0.5, 1.0, 2.0][(h >> 21) % 3]}]
    else:
        d = G.derived(n, mask, 1)
        if variant == 2:        # several part-of-speech classes
            d['pos'] = ''.join('nnvas'[(h >> (3 * k)) % 5] for k in range(n))
        d['ics'] = [{'mode': 'weights',
                     'weights': [_WEIGHT_POOL[(h >> (3 * k + 1)) & 7] for k in range(n)],
                     'slack': [1.0, 1.5, 3.0][(h >> 23) % 3]}]
    d['D'] = 1 + (h >> 25) % 5
    return d


def _enum_small(tier, shard, nshards):
    items = [(n, m, v) for (n, m) in G.small_graph_index() for v in (0, 1, 2)]
    for bi, batch in enumerate(G.batches(items, 32)):
        if bi % nshards == shard:
            yield {'graphs': [_derived(n, m, v) for (n, m, v) in batch]}


@st.composite
def _ic(draw, d):
    n = d['n']
    same_class = len(set(G.pos_class(p) for p in d['pos'])) == 1
    if same_class and 'words' in d and draw(st.booleans()):
        corpus = draw(st.lists(st.integers(0, n - 1), max_size=2 * n))
        return {'mode': 'compute', 'corpus': corpus, 'distribute': draw(st.booleans()),
                'smoothing': draw(st.sampled_from([0.5, 1.0, 2.0]))}
    wt = st.one_of(st.sampled_from(_WEIGHT_POOL),
                   st.floats(min_value=1e-3, max_value=1e6, allow_nan=False,
                             allow_infinity=False))
    return {'mode': 'weights', 'weights': [draw(wt) for _ in range(n)],
            'slack': draw(st.sampled_from([1.0, 1.0, 1.5, 3.0, 1000.0]))}


def _sp_avoids_lcs(g, a, b) -> bool:
    low = G.lowest_common(g, a, b)
    sp = G.sp_len(g, a, b)
    if not low or sp is None or a == b:
        return False
    da, db_ = G.distances(g, a), G.distances(g, b)
    return all(da[c] + db_[c] > sp for c in low)


@st.composite
def _decorated(draw, graph_strategy, n_ics):
    d = draw(graph_strategy)
    if len(set(G.pos_class(p) for p in d['pos'])) == 1:
        _with_words(d)
    d['D'] = draw(st.integers(1, 20))
    d['ics'] = [draw(_ic(d)) for _ in range(n_ics)]
    n = d['n']
    if n > 5:
        allp = [[a, b] for a in range(n) for b in range(a, n)]
        g = G.Graph.of(d)
        multi = [] if G.has_cycle(g) else [[a, b] for a, b in allp
                                           if len(G.lowest_common(g, a, b)) >= 2]
        # pairs whose shortest path avoids every lowest common hypernym
        off = [] if G.has_cycle(g) else [[a, b] for a, b in allp if _sp_avoids_lcs(g, a, b)]
        drawn = draw(st.lists(st.sampled_from(allp), min_size=8, max_size=8, unique_by=tuple))
        d['pairs'] = sorted(set(map(tuple, multi[:6] + off[:4] + drawn)))
        d['pairs'] = [list(p) for p in d['pairs']]
    return d


_POS_KINDS = ('n', 'n', 'as', 'classes')


def _drawn_4(tier):
    m4 = st.one_of(G.masks(4), G.dag_biased(4), G.dag_biased(4), G.cycle_biased(4), G.layered(4))
    return G.batch_of(_decorated(G.drawn_graph(4, m4, _POS_KINDS), 2), (1, 6, 4, 8, 5, 7))


def _random_big(tier):
    return G.batch_of(_decorated(G.random_graph(5, 8, _POS_KINDS, limit=80), 1), (1, 3, 2, 3, 4))


def _two_lcs(tier):
    return G.batch_of(_decorated(G.random_graph(5, 7, ('n', 'n', 'as'), limit=80,
                                                families=('two-lcs', 'layered', 'shortcut')), 1),
                      (1, 6, 8, 10, 12, 9))   # many lexicons/rowids: varied Synset hashes


# ---------------------------------------------------------------------------
# interlingual graphs: a sparse lexicon whose hypernymy comes from expand lexicons; the
# concepts it lacks are placeholder nodes of the graph (never arguments of a metric here)

class _MappedLab:
    """Looks like graphs.Lab for one graph: the ILI-mapped hypernym graph of a C12-style case."""

    def __init__(self, case):
        from . import c11, c12
        from .. import observe
        from ..observe import key_of
        self.case = case
        ref = c12._setup(case)
        view = c12._view(ref, case)
        names = ('hypernym', 'instance_hypernym')
        real = [r for r in view.synsets()]
        keys = [r.key for r in real]
        succ = {}
        todo = [(r.key, r) for r in real]
        while todo:
            k, node = todo.pop()
            if k in succ:
                continue
            tg = c12._related(view, node, names, real[0].owner)
            succ[k] = [c12._kstr(t) for t in tg]
            for t in tg:
                ks = c12._kstr(t)
                if ks not in succ:
                    todo.append((ks, c12._node_of(view, t)))
        for k in succ:
            if k not in keys:
                keys.append(k)
        self.keys = keys
        self.n_real = len(real)
        idx = {k: i for i, k in enumerate(keys)}
        self.edges = sorted({(idx[k], idx[t]) for k, ts in succ.items() for t in ts})
        self.w, _ = observe.make_wordnet(case['selection'], None, case['expand'])
        # Synset objects by node: real ones by id, placeholders by walking the API
        objs = {key_of(x): x for x in self.w.synsets()}
        found = {k: objs[k] for k in keys[:self.n_real]}
        frontier = list(found.values())
        while frontier:
            x = frontier.pop()
            for t in x.get_related(*names):
                ks = c12._kstr(key_of(t))
                if ks in idx and ks not in found:
                    found[ks] = t
                    frontier.append(t)
        self.objs = [found.get(k) for k in keys]

    def desc(self, D):
        n = len(self.keys)
        return {'n': n, 'mask': G.mask_of(n, self.edges), 'pos': 'n' * n, 'recip': False, 'D': D,
                'ics': [], 'pairs': [[a, b] for a in range(self.n_real)
                                     for b in range(self.n_real)]}

    def wordnet(self, i):
        return self.w

    def synsets(self, i, w=None):
        return self.objs

    def ids(self, i):
        return list(self.keys)


@st.composite
def _il_cases(draw):
    from . import c13
    case = draw(c13._il_drawn())
    case['selection'] = 'L:1'
    case['D'] = draw(st.integers(1, 12))
    return case


def _il_classify(case):
    from . import c11, c12
    from ..refdb import RefDB
    ref = RefDB()
    for spec in case['order']:
        ref.add_resource({'lmf_version': '1.1', 'lexicons': [case['lexicons'][spec]]})
    view = c12._view(ref, case)
    tags = set()
    anc = {r.key: set(c11._x_reach(view, r, ('hypernym', 'instance_hypernym'))) | {r.key}
           for r in view.synsets()}
    rs = list(view.synsets())
    for a in rs:
        for b in rs:
            if a is not b:
                ph = [k for k in anc[a.key] & anc[b.key] if k.startswith('*INFERRED*')]
                if ph:
                    tags.add('pair-below-placeholder')
                if len(ph) >= 2:
                    tags.add('pair-below-2-placeholders')
    return bool(tags), sorted(tags)


def _il_oracle(case):
    out = _Out()
    lab = _MappedLab(case)
    if any(o is None for o in lab.objs[:lab.n_real]):
        raise env.HarnessError('a selected synset was not listed by the Wordnet')
    _check_graph(lab, 0, lab.desc(case['D']), out, 'taxonomy')
    return out.discs


@st.composite
def _split_decorated(draw):
    """A graph divided between a lexicon and an extension of it (see C13), given weights."""
    from . import c13
    d = draw(c13._split_graph())
    d['D'] = draw(st.integers(1, 20))
    d['ics'] = [draw(_ic(d))]
    return d


def _split(tier):
    return G.batch_of(_split_decorated(), (1, 3, 4, 6))


SUBS = [
    Sub('interlingual', _il_oracle, _il_classify, strategy=lambda tier: _il_cases(),
        budget={'quick': 50, 'thorough': 1000}, sample=lambda c: c, case_timeout=300,
        require_tags=('pair-below-2-placeholders',)),
    Sub('split-lexicons', oracle, _classify, strategy=_split,
        budget={'quick': 20, 'thorough': 200}, sample=_sample, purge_every=8, case_timeout=900),
    Sub('enum-n<=3', oracle, _classify, enumerate=_enum_small,
        exhaustive_note='all 530 labelled digraphs on 1-3 nodes in three variants (nouns with '
                        'computed weights; a/s mix and mixed classes with given weights); all '
                        'ordered pairs; simulate_root False and True',
        sample=_sample, purge_every=8, case_timeout=900,
        require_tags=('has-cycle', 'multiple-inheritance', 'a/s-mix', 'mixed-pos-classes',
                      'ic:compute', 'ic:weights', 'ic:equal-weights', 'diamond')),
    Sub('drawn-n=4', oracle, _classify, strategy=_drawn_4,
        budget={'quick': 20, 'thorough': 120}, sample=_sample, purge_every=8, case_timeout=900,
        require_tags=('a/s-mix', 'mixed-pos-classes')),
    Sub('random-n=5..8', oracle, _classify, strategy=_random_big,
        budget={'quick': 25, 'thorough': 80}, sample=_sample, purge_every=8, case_timeout=900,
        require_tags=('family:layered', 'family:cyclic', 'family:diamonds')),
    Sub('several-lcs', oracle, _classify, strategy=_two_lcs,
        budget={'quick': 30, 'thorough': 60}, sample=_sample, purge_every=8, case_timeout=900,
        require_tags=('>=2-LCS', '>=2-LCS-at-different-distances', 'family:two-lcs',
                      'family:shortcut')),
]
