"""C19 - Loading an ILI index only updates ILI status and definitions."""

from __future__ import annotations

import copy
import gzip
import lzma
import tarfile
from pathlib import Path

from hypothesis import strategies as st

from .. import dumps, env, gen, observe
from ..canon import diff, fingerprint
from ..harness import Disc, Sub

PROPERTY = 'C19'
LEVEL = 'exploration'
RULE = ('Hypothesis draws 2-3 independent resources (1-2 lexicons each, possibly base+extension) '
        'whose synsets take ILIs from one shared pool of 5 ids (some proposed, some with a spurious '
        'ILIDefinition), an ILI index file (header upper/lower/mixed case, status / definition '
        'columns present or not and in either order, LF or CRLF, final newline or not, any subset '
        'of pool ids and of 3 ids no lexicon uses, statuses active/provisional/deprecated/zz, empty '
        'definitions, a trailing definition cell left out, optionally a repeated id, optionally '
        '>1000 filler rows to cross the insert batch, supplied as plain file / package directory / '
        'gz / xz / tar.xz of a package) and 2-6 interleavings (lexicon order fixed, index at one or '
        'two positions).  Each interleaving runs in its own database.  Oracle at the first index '
        'load: every listed id has the file\'s status and definition, unlisted rows of `ilis` are '
        'identical (and presupposed), no other row appears or vanishes, rowid and metadata of '
        'existing rows are unchanged, every other table is identical, the public-API observation '
        'with ILI status/definition masked is identical, Synset.ili / wn.ili / wn.ilis(status=) / '
        'wn.synsets(ili=) agree with the table and the documents.  Every later load of the same '
        'file leaves the raw dump identical.  At the end: listed ids still carry the file\'s values, '
        'other used ids are presupposed, and the {id: (status, definition)} map is the same in all '
        'interleavings.  Non-trivial: the index lists >=1 id used by a lexicon and >=1 unused id '
        'and is loaded between two lexicon adds in at least one interleaving; distinct by '
        '(documents, index, interleavings).')
ASSUMPTIONS = [
    'definitions hold no TAB/CR/LF and no leading/trailing whitespace; ids and statuses are plain tokens',
    'an empty definition cell, a missing trailing definition cell and an absent definition column '
    'all mean "no definition": None and \'\' are not distinguished',
    'without a status column the statement fixes no value: any one documented authoritative status '
    '(active/provisional/deprecated), the same for all listed ids, is accepted',
    'an id listed twice may end up with the values of either row (but the same ones in every '
    'interleaving and after a reload)',
    'the relative order of the lexicon adds is fixed within a case (only the index position varies), '
    'so definitions of unlisted presupposed ILIs are comparable across interleavings',
    'lexicons are added from memory (wn.add_lexical_resource); supply routes are C07\'s subject',
    'generator avoids the C01 crashes (synset without partOfSpeech, frame without id)',
]

POOL = ['i1', 'i2', 'i3', 'i4', 'i\u00e95']
EXTRA = ['u1', 'u2', '\u7a7a3']
STATUSES = ['active', 'provisional', 'deprecated', 'zz', 'proposed']
AUTHORITATIVE = ('active', 'provisional', 'deprecated')
INDEX_ROUTES = ['file', 'package', 'gz', 'xz', 'tar.xz:package']
N_FILLER = 1050     # > wn._add.BATCH_SIZE

_BASE = dict(allow_no_pos_synset=False, allow_frame_without_id=False)
_PROFILE = gen.Profile(ili_pool=tuple(POOL), max_entries=2, max_synsets=5, max_senses=2,
                       max_forms=2, **_BASE)

_DEF_ALPHABET = st.one_of(
    st.sampled_from('abcdeXY12   '),
    st.sampled_from('"\'\\<>&;,.%_-|#'),
    st.sampled_from('\u00e9\u00df\u6f22\U0001f642\u0301\u05d0\x0c\x85\u2028\xa0'),
)


def _definition():
    plain = st.text(alphabet=_DEF_ALPHABET, max_size=12).map(str.strip)
    # a cell that a CSV dialect would treat as quoted: the index format has no quoting at all
    quoted = st.builds(lambda h, t: (h + t).strip(),
                       st.sampled_from(['"', '"x" y', '"x', '""', "'", '"x""y"']), plain)
    return st.one_of(st.just(''), plain, plain, quoted)


# ---------------------------------------------------------------------------
# cases

def _rename_lexicons(res, ren):
    res = copy.deepcopy(res)
    for lx in res['lexicons']:
        lx['id'] = ren[lx['id']]
        if lx.get('extends') and lx['extends']['id'] in ren:
            lx['extends']['id'] = ren[lx['extends']['id']]
    return res


def _chance(draw, k: int, n: int) -> bool:
    """True with probability about k/n; False is the simplest value (Hypothesis favours it)."""
    return draw(st.sampled_from([False] * (n - k) + [True] * k))


@st.composite
def _index(draw, used=(), one_column=False):
    if one_column:
        cols = []
    else:
        has_status = not _chance(draw, 1, 5)
        has_def = (not _chance(draw, 1, 5)) if has_status else True
        cols = (['status'] if has_status else []) + (['definition'] if has_def else [])
        if len(cols) == 2 and _chance(draw, 1, 4):
            cols.reverse()
    used = sorted(used)
    unused = [i for i in POOL + EXTRA if i not in used]
    ids = []
    if not _chance(draw, 1, 12):      # else: a header-only index
        if used:
            ids += draw(st.lists(st.sampled_from(used), unique=True,
                                 min_size=0 if _chance(draw, 1, 8) else 1))
        ids += draw(st.lists(st.sampled_from(unused), unique=True,
                             min_size=0 if _chance(draw, 1, 6) else 1))
        ids = list(draw(st.permutations(ids)))
    rows = [{'id': i, 'status': draw(st.sampled_from(STATUSES)), 'definition': draw(_definition())}
            for i in ids]
    if rows and _chance(draw, 1, 3):
        # a repeated id with (possibly) other values, anywhere in the file
        dup = {'id': draw(st.sampled_from(ids)),
               'status': draw(st.sampled_from(STATUSES)), 'definition': draw(_definition())}
        rows.insert(draw(st.integers(0, len(rows))), dup)
    if cols and cols[-1] == 'definition':
        for r in rows:
            if r['definition'] == '' and draw(st.booleans()):
                r['short'] = True
    return {
        'header': draw(st.sampled_from(['upper', 'lower', 'mixed'])),
        'cols': cols,
        'eol': draw(st.sampled_from(['\n', '\r\n'])),
        'final_eol': not _chance(draw, 1, 4),
        'rows': rows,
        'filler': N_FILLER if _chance(draw, 1, 10) else 0,
        'route': draw(st.sampled_from(['file'] * 4 + INDEX_ROUTES[1:])),
    }


@st.composite
def _cases(draw, tier='quick', one_column=False):
    n = draw(st.integers(2, 3))
    units = []
    for k in range(n):
        res = draw(gen.resources(_PROFILE, max_lexicons=2))
        ren = {lx['id']: f'r{k}{lx["id"]}' for lx in res['lexicons']}
        units.append(_rename_lexicons(res, ren))
    index = draw(_index(used=_used(_model(units)), one_column=one_column))
    singles = [[p] for p in range(n + 1)]
    doubles = [[p, q] for p in range(n + 1) for q in range(p, n + 1)]
    if one_column:
        lo, hi = 1, 2
    elif tier == 'quick':
        lo, hi = 2, 3
    else:
        lo, hi = 3, 6
    orders = draw(st.lists(st.sampled_from(singles * 2 + doubles), min_size=lo, max_size=hi,
                           unique_by=lambda o: tuple(o)))
    return {'units': units, 'index': index, 'orders': orders}


# ---------------------------------------------------------------------------
# the index file

def _render(index) -> bytes:
    cols = index['cols']
    head = ['ili'] + cols
    if index['header'] == 'upper':
        head = [h.upper() for h in head]
    elif index['header'] == 'mixed':
        head[0] = 'ILI'
    lines = ['\t'.join(head)]
    for r in index['rows']:
        cells = [r['id']] + [r[c] for c in cols]
        if r.get('short'):
            cells = cells[:-1]
        lines.append('\t'.join(cells))
    for j in range(index.get('filler', 0)):
        lines.append('\t'.join([f'f{j}'] + [{'status': 'active', 'definition': f'filler {j}'}[c]
                                             for c in cols]))
    eol = index['eol']
    if _blank_lines(index):
        # blank lines list no ILI: one after the rows, one in the middle
        lines.insert(1 + len(index['rows']) // 2, '')
        lines.append('')
    text = eol.join(lines) + (eol if index['final_eol'] else '')
    return text.encode('utf-8')


def _blank_lines(index) -> bool:
    return bool(index['final_eol']) and len(index['rows']) % 2 == 0


def _write_index(index, work: Path) -> Path:
    data = _render(index)
    route = index['route']
    if route == 'file':
        p = work / 'index.tsv'
        p.write_bytes(data)
        return p
    if route == 'gz':
        p = work / 'index.tsv.gz'
        with gzip.open(p, 'wb') as fh:
            fh.write(data)
        return p
    if route == 'xz':
        p = work / 'index.tsv.xz'
        with lzma.open(p, 'wb') as fh:
            fh.write(data)
        return p
    pkg = work / 'myili'
    pkg.mkdir()
    (pkg / 'myili.tsv').write_bytes(data)
    (pkg / 'README.md').write_text('# an interlingual index\n')
    (pkg / 'LICENSE').write_text('license text\n')
    (pkg / 'citation.bib').write_text('@misc{x}\n')
    if route == 'package':
        return pkg
    if route == 'tar.xz:package':
        p = work / 'myili.tar.xz'
        with tarfile.open(p, 'w:xz') as tf:
            tf.add(pkg, arcname=pkg.name)
        return p
    raise env.HarnessError(f'unknown index route {route}')


def _file_expectation(index) -> dict:
    """{id: [(status | None, definition | None), ...]} - one pair per row naming the id.
    status None: no status column; definition None: no definition (empty, cut or no column)."""
    cols = index['cols']
    exp: dict = {}
    for r in index['rows']:
        s = r['status'] if 'status' in cols else None
        d = (r['definition'] or None) if 'definition' in cols else None
        exp.setdefault(r['id'], []).append((s, d))
    for j in range(index.get('filler', 0)):
        exp[f'f{j}'] = [('active' if 'status' in cols else None,
                         f'filler {j}' if 'definition' in cols else None)]
    return exp


# ---------------------------------------------------------------------------
# the documents' view

def _model(units) -> dict:
    """{spec: {synset id: ili ('' none, 'in' proposed, else id)}} of locally declared synsets."""
    m = {}
    for res in units:
        for lx in res['lexicons']:
            spec = f'{lx["id"]}:{lx["version"]}'
            m[spec] = {ss['id']: ss.get('ili') or '' for ss in lx.get('synsets', [])
                       if not ss.get('external')}
    return m


def _used(model: dict) -> set:
    return {i for sss in model.values() for i in sss.values() if i not in ('', 'in')}


def _spurious(units) -> set:
    return {ss['ili'] for res in units for lx in res['lexicons'] for ss in lx.get('synsets', [])
            if not ss.get('external') and ss.get('ili') not in ('', 'in', None)
            and ss.get('ili_definition')}


# ---------------------------------------------------------------------------
# reading the database

def _ili_table(raw: dict, out: list, label: str) -> dict:
    """{id: {'rowid', 'status', 'definition', 'meta'}} from a raw dump (plain SQL view)."""
    stat = {r[0]: r[2] for r in raw.get('ili_statuses', [])}
    tab = {}
    for r in raw.get('ilis', []):
        rowid, _, iid, srow, defn, meta = r
        if srow not in stat:
            out.append(Disc('dangling-ili-status', f'{label}/ilis/{iid}', 'a row of ili_statuses', srow))
        tab[iid] = {'rowid': rowid, 'status': stat.get(srow), 'definition': defn or None,
                    'meta': meta}
    return tab


def _others(raw: dict) -> dict:
    return {t: rows for t, rows in raw.items() if t not in ('ilis', 'ili_statuses')}


def _mask(obs):
    """Observation with status/definition of non-proposed ILIs blanked."""
    obs = copy.deepcopy(obs)
    for o in obs.values():
        if not isinstance(o, dict) or 'synsets' not in o:
            continue
        for ss in o['synsets'].values():
            ili = ss.get('ili')
            if isinstance(ili, dict) and ili.get('id') is not None:
                ili['status'] = ili['definition'] = '*'
        for ili in o['ilis']:
            if ili.get('id') is not None:
                ili['status'] = ili['definition'] = '*'
        o['ilis'].sort(key=lambda d: (str(d['id']), str(d['definition']), str(d['meta'])))
    return obs


def _srt(xs) -> list:
    return sorted(xs, key=repr)


def _ili_pair(ili):
    if ili is None:
        return None
    if isinstance(ili, dict):
        return ili
    return [ili.id, ili.status, ili.definition() or None]


def _api_check(model: dict, table: dict, out: list, label: str) -> None:
    """What wn reports about ILIs agrees with the ilis table and with the documents."""
    import wn
    used = _used(model)
    want_ili = {i: [i, table[i]['status'], table[i]['definition']] for i in used if i in table}
    n_proposed = sum(1 for sss in model.values() for i in sss.values() if i == 'in')
    by_ili: dict = {}
    for spec, sss in sorted(model.items()):
        got = {}
        for ss in wn.synsets(lexicon=spec):
            got[ss.id] = _ili_pair(observe.call(lambda ss=ss: ss.ili))
        want = {}
        for ssid, i in sss.items():
            if i == '':
                want[ssid] = None
            elif i == 'in':
                # the proposed definition is compared by the before/after observation
                want[ssid] = got[ssid] if (isinstance(got.get(ssid), list)
                                            and got[ssid][:2] == [None, 'proposed']) \
                    else [None, 'proposed', '...']
            else:
                want[ssid] = want_ili.get(i, [i, 'missing from ilis table', None])
                by_ili.setdefault(i, []).append(f'{spec}|{ssid}')
        for p, e, g in diff(want, got)[:5]:
            out.append(Disc('synset-ili-wrong', f'{label}/{spec}{p}', e, g,
                            note='Synset.ili vs ilis table and document'))
        # per-lexicon status filter
        for s in sorted({v[1] for v in want_ili.values()} | set(STATUSES) | {'presupposed'}):
            w = _srt(v for v in (want_ili.get(i) for i in set(sss.values()) - {'', 'in'})
                     if v and v[1] == s)
            g = [_ili_pair(x) for x in wn.ilis(status=s, lexicon=spec)]
            if s == 'proposed':
                # an index may call an ILI 'proposed'; the proposed ILIs of synsets (no id) come
                # on top: one per synset with ili="in"
                own = [x for x in g if x[0] is None]
                g = [x for x in g if x[0] is not None]
                if len(own) != sum(1 for i in sss.values() if i == 'in'):
                    out.append(Disc('ilis-status-filter-wrong',
                                    f'{label}/ilis(status={s!r}, lexicon={spec}) proposed by synsets',
                                    sum(1 for i in sss.values() if i == 'in'), own))
            g = _srt(g)
            if w != g:
                out.append(Disc('ilis-status-filter-wrong', f'{label}/ilis(status={s!r}, lexicon={spec})',
                                w, g))
    for i in sorted(used):
        g = _ili_pair(observe.call(wn.ili, i))
        if g != want_ili.get(i):
            out.append(Disc('wn-ili-wrong', f'{label}/wn.ili({i!r})', want_ili.get(i), g))
        g = sorted(observe.key_of(s) for s in wn.synsets(ili=i))
        if g != sorted(by_ili.get(i, [])):
            out.append(Disc('synsets-by-ili-wrong', f'{label}/wn.synsets(ili={i!r})',
                            sorted(by_ili.get(i, [])), g))
    for s in sorted({v[1] for v in want_ili.values()} | set(STATUSES) | {'presupposed'}):
        w = _srt(v for v in want_ili.values() if v[1] == s)
        g = _srt(x for x in (_ili_pair(y) for y in wn.ilis(status=s))
                 if not (s == 'proposed' and x[0] is None))
        if w != g:
            out.append(Disc('ilis-status-filter-wrong', f'{label}/wn.ilis(status={s!r})', w, g))
    g = [x for x in (_ili_pair(y) for y in wn.ilis(status='proposed')) if x[0] is None]
    if len(g) != n_proposed or any(x[:2] != [None, 'proposed'] for x in g):
        out.append(Disc('ilis-status-filter-wrong', f'{label}/wn.ilis(status=\'proposed\')',
                        f'{n_proposed} proposed ILIs', g))
    allg = [_ili_pair(x) for x in wn.ilis()]
    w = _srt(want_ili.values())
    g = _srt(x for x in allg if x[0] is not None)
    if w != g or len(allg) - len(g) != n_proposed:
        out.append(Disc('ilis-listing-wrong', f'{label}/wn.ilis()',
                        {'ilis': w, 'proposed': n_proposed},
                        {'ilis': g, 'proposed': len(allg) - len(g)}))


def _match(fileexp: list, got: dict, out: list, path: str, nostatus: set) -> None:
    """Row *got* of the ilis table carries the values of (one of) the file's row(s)."""
    ok = False
    for s, d in fileexp:
        if d != got['definition']:
            continue
        if s is None:
            if got['status'] in AUTHORITATIVE:
                nostatus.add(got['status'])
                ok = True
        elif s == got['status']:
            ok = True
    if not ok:
        exp = [[s if s is not None else '<one of active/provisional/deprecated>', d]
               for s, d in fileexp]
        out.append(Disc('listed-ili-wrong', path, exp[0] if len(exp) == 1 else {'__oneof__': exp},
                        [got['status'], got['definition']]))


def _check_against_file(fexp: dict, table: dict, out: list, label: str) -> None:
    nostatus: set = set()
    for i in sorted(fexp):
        if i not in table:
            out.append(Disc('listed-ili-missing', f'{label}/ilis/{i}', fexp[i][0], None))
        else:
            _match(fexp[i], table[i], out, f'{label}/ilis/{i}', nostatus)
    if len(nostatus) > 1:
        out.append(Disc('default-status-not-uniform', label, 'one status', sorted(nostatus)))


# ---------------------------------------------------------------------------
# one interleaving

def _exports(db) -> dict:
    """{specifier: text of the 1.3 export} of every installed non-extension lexicon."""
    import wn
    out = {}
    work = env.new_dir('c19x')
    for lx in wn.lexicons():
        if lx.extends() is not None:
            continue
        f = work / 'x.xml'
        wn.export([lx], f, version='1.3')
        out[lx.specifier()] = f.read_text(encoding='utf-8')
    return out


def _run_order(case, order, idx_path: Path, empty_raw: dict, out: list, label: str):
    """Returns the final {id: [status, definition]} map (None if the index was rejected)."""
    import wn
    units = case['units']
    fexp = _file_expectation(case['index'])
    db = env.fresh_db()
    installed: list = []
    loads = 0

    def load_index(at: str) -> bool:
        nonlocal loads
        before = dumps.raw_dump(db.file) or empty_raw
        model = _model(installed)
        obs_before = _mask(observe.observe_all_lexicons(deep=True, expand=None)) if installed else {}
        exp_before = _exports(db) if installed else {}
        try:
            wn.add(idx_path, progress_handler=None)
        except wn.Error as exc:
            out.append(Disc('index-rejected', at, 'index loaded', f'wn.Error: {exc}'[:300]))
            return False
        loads += 1
        after = dumps.raw_dump(db.file)
        if loads > 1:
            for p, e, g in diff(before, after)[:5]:
                out.append(Disc('reload-changes-database', f'{at}{p}', e, g))
            return True
        # everything but the two ILI tables is untouched
        for p, e, g in diff(_others(before), _others(after))[:5]:
            out.append(Disc('index-changes-other-tables', f'{at}{p}', e, g))
        tb = _ili_table(before, out, at + '/before')
        ta = _ili_table(after, out, at + '/after')
        for i in sorted(set(tb) | set(ta)):
            path = f'{at}/ilis/{i}'
            if i in tb and i not in ta:
                out.append(Disc('ili-row-vanished', path, tb[i], None))
            elif i not in tb and i not in fexp:
                out.append(Disc('unexpected-ili-row', path, None, ta[i]))
            elif i in tb and i in ta:
                if (tb[i]['rowid'], tb[i]['meta']) != (ta[i]['rowid'], ta[i]['meta']):
                    out.append(Disc('ili-rowid-or-metadata-changed', path,
                                    [tb[i]['rowid'], tb[i]['meta']], [ta[i]['rowid'], ta[i]['meta']]))
                if i not in fexp:
                    if tb[i] != ta[i]:
                        out.append(Disc('unlisted-ili-changed', path, tb[i], ta[i]))
                    if ta[i]['status'] != 'presupposed':
                        out.append(Disc('unlisted-ili-not-presupposed', path, 'presupposed',
                                        ta[i]['status']))
        _check_against_file(fexp, ta, out, at)
        if installed:
            obs_after = _mask(observe.observe_all_lexicons(deep=True, expand=None))
            for p, e, g in diff(obs_before, obs_after)[:5]:
                out.append(Disc('index-changes-observation', f'{at}{p}', e, g))
            # "all lexicon content stays the same": also what export writes for each lexicon
            for p, e, g in diff(exp_before, _exports(db))[:3]:
                out.append(Disc('index-changes-export', f'{at}{p}', e, g))
            _api_check(model, ta, out, at)
        return True

    for pos in range(len(units) + 1):
        for k in range(order.count(pos)):
            if not load_index(f'{label}@{pos}.{k}'):
                return None
        if pos < len(units):
            # an extension is skipped while its base (same resource) is not installed yet,
            # so a resource with k lexicons is complete after at most k adds
            rounds = 1 + sum(1 for lx in units[pos]['lexicons'] if lx.get('extends'))
            for _ in range(rounds):
                wn.add_lexical_resource(copy.deepcopy(units[pos]), progress_handler=None)
            installed.append(units[pos])

    # final state
    raw = dumps.raw_dump(db.file)
    table = _ili_table(raw, out, label + '/final')
    model = _model(units)
    want_specs = sorted(model)
    got_specs = sorted(dumps.installed(db.file))
    if want_specs != got_specs:
        out.append(Disc('installed-set-wrong', label, want_specs, got_specs))
        return None
    _check_against_file(fexp, table, out, label + '/final')
    used = _used(model)
    for i in sorted(set(table) | used | set(fexp)):
        path = f'{label}/final/ilis/{i}'
        if i not in table:
            if i in used:
                out.append(Disc('used-ili-missing', path, 'a row', None))
        elif i not in used and i not in fexp:
            out.append(Disc('unexpected-ili-row', path, None, table[i]))
        elif i not in fexp and table[i]['status'] != 'presupposed':
            out.append(Disc('unlisted-ili-not-presupposed', path, 'presupposed', table[i]['status']))
    _api_check(model, table, out, label + '/final')
    problems = dumps.audit(db.file)
    if problems:
        out.append(Disc('audit', label, [], problems))
    return {i: [r['status'], r['definition']] for i, r in table.items()}


def oracle(case):
    import wn
    out: list[Disc] = []
    work = env.new_dir('c19')
    idx_path = _write_index(case['index'], work)
    db0 = env.fresh_db()
    wn.lexicons()      # schema only: what "before" looks like for a database not yet created
    empty_raw = dumps.raw_dump(db0.file)
    maps = []
    for n, order in enumerate(case['orders']):
        label = 'order' + ','.join(map(str, order))
        m = _run_order(case, list(order), idx_path, empty_raw, out, label)
        maps.append((label, m))
    ref_label, ref = maps[0]
    for label, m in maps[1:]:
        if ref is None or m is None:
            continue
        for p, e, g in diff(ref, m)[:5]:
            out.append(Disc('order-dependent-ili', f'{ref_label} vs {label}{p}', e, g))
    return out


# ---------------------------------------------------------------------------
# classification

def _classify(case):
    index = case['index']
    model = _model(case['units'])
    used = _used(model)
    listed = {r['id'] for r in index['rows']}
    n = len(case['units'])
    tags = ['header:' + index['header'], 'cols:' + ('+'.join(index['cols']) or 'none'),
            'eol:' + ('crlf' if index['eol'] == '\r\n' else 'lf'), 'route:' + index['route'],
            'blank-lines:' + str(_blank_lines(index)),
            f'units:{n}']
    if not index['final_eol']:
        tags.append('no-final-eol')
    if listed & used:
        tags.append('listed-used')
    if listed - used:
        tags.append('listed-unused')
    if used - listed:
        tags.append('unlisted-used')
    if not index['rows']:
        tags.append('empty-index')
    if len(listed) < len(index['rows']):
        tags.append('repeated-id')
    if index.get('filler'):
        tags.append('filler>batch')
    if any(r.get('short') for r in index['rows']):
        tags.append('short-row')
    if 'definition' in index['cols'] and any(r['definition'] == '' for r in index['rows']):
        tags.append('empty-definition')
    if 'definition' in index['cols'] and any(ord(c) > 127 for r in index['rows']
                                             for c in r['definition']):
        tags.append('non-ascii-definition')
    if 'definition' in index['cols'] and any(r['definition'][:1] in ('"', "'")
                                             for r in index['rows']):
        tags.append('definition-starts-with-quote')
    if 'status' in index['cols']:
        for r in index['rows']:
            tags.append('status:' + r['status'])
    if _spurious(case['units']) & listed:
        tags.append('spurious-ilidef-on-listed')
    if _spurious(case['units']) - listed:
        tags.append('spurious-ilidef-on-unlisted')
    if any(i == 'in' for sss in model.values() for i in sss.values()):
        tags.append('proposed')
    cnt: dict = {}
    for sss in model.values():
        for i in set(sss.values()) - {'', 'in'}:
            cnt[i] = cnt.get(i, 0) + 1
    if any(c > 1 for c in cnt.values()):
        tags.append('ili-shared-by-lexicons')
    if any(lx.get('extends') for r in case['units'] for lx in r['lexicons']):
        tags.append('extension')
    between = any(0 < p < n for o in case['orders'] for p in o)
    if between:
        tags.append('index-between')
    if any(o[0] == 0 for o in case['orders']):
        tags.append('index-first')
    if any(o == [n] for o in case['orders']):
        tags.append('index-last-only')
    if any(len(o) == 2 for o in case['orders']):
        tags.append('index-twice')
    tags.append(f'orders:{len(case["orders"])}')
    nontrivial = bool(listed & used) and bool(listed - used) and between
    return nontrivial, sorted(set(tags))


def _fp(case):
    return fingerprint([case['units'], case['index'], case['orders']])


def _sample(case):
    ix = dict(case['index'])
    ix['rows'] = ix['rows'][:10]
    return {'index': ix, 'orders': case['orders'],
            'lexicons': [[(f'{lx["id"]}:{lx["version"]}', 'ext' if lx.get('extends') else 'lex',
                           [ss.get('ili') for ss in lx.get('synsets', []) if not ss.get('external')])
                          for lx in r['lexicons']] for r in case['units']]}


def _strategy(tier):
    return _cases(tier=tier)


def _strategy_one_column(tier):
    return _cases(tier=tier, one_column=True)


SUBS = [
    Sub('interleavings', oracle, _classify, strategy=_strategy,
        budget={'quick': 60, 'thorough': 150}, fingerprint=_fp, sample=_sample,
        require_tags=('listed-used', 'listed-unused', 'unlisted-used', 'index-between',
                      'index-first', 'index-twice', 'header:upper', 'header:lower',
                      'eol:crlf', 'eol:lf', 'cols:status+definition', 'cols:status',
                      'cols:definition', 'status:zz', 'spurious-ilidef-on-listed', 'proposed',
                      'empty-definition', 'repeated-id', 'ili-shared-by-lexicons',
                      'definition-starts-with-quote')),
    # an index that has neither a status nor a definition column (ids only)
    Sub('ids-only-index', oracle, _classify, strategy=_strategy_one_column,
        budget={'quick': 4, 'thorough': 10}, fingerprint=_fp, sample=_sample),
]
