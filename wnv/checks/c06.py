"""C06 - A failed add or remove leaves the database exactly as it was."""

from __future__ import annotations

import copy
import shutil
import sqlite3

from hypothesis import strategies as st

from .. import dumps, env, gen, observe, xmlw
from ..canon import diff, fingerprint
from ..harness import Disc, Sub

PROPERTY = 'C06'
LEVEL = 'fault_enumeration'
RULE = ('Hypothesis draws an initial database (empty, an unrelated lexicon, or the base of an '
        'extension about to be added), a resource of 1-3 lexicons supplied as a file or in memory, '
        'and - for removal cases - a lexicon with or without extensions to remove. Per document the '
        'fault positions are enumerated by the harness, which owns the failure point: every '
        'progress-handler callback k = 1..K (K measured by a clean run; thorough: all, quick: up to '
        '12 spread over 1..K), every position p of each reference corruption (sense->synset, '
        'synset-relation target, sense-relation target, duplicate entry id, duplicate form, '
        'truncated file), every SQL write statement j = 1..J denied by an injected authorizer on a '
        'cold connection, and for every table the operation touches a TEMP trigger aborting the '
        'first / middle / last row (also inside foreign-key cascades of a removal). Oracle: if the '
        'operation raised, the raw dump of all tables (lookup tables and rowids included) equals '
        'the one before the call, the audit is clean and the connection is not left in a '
        'transaction; then the uncorrupted operation succeeds and yields the raw dump / API '
        'observation of a control database that never saw the fault. Non-trivial: a document for '
        'which at least three injected faults made the operation fail and were verified (denied '
        'statements j >= 2, triggers on later rows/tables and progress calls inside the transaction '
        'fire after rows were written); the class histogram counts fault injections by kind and '
        'outcome; distinct by (documents, fault positions).')
ASSUMPTIONS = [
    'an exception raised from ProgressHandler.close() after the work is done may find the '
    'operation complete: then the state must be exactly the complete one (never partial)',
    'a corruption that does not make the operation fail (e.g. duplicate forms with NULL script) '
    'asserts nothing (counted as fault-not-triggered)',
    'removal faults use exact id:version specifiers (one lexicon with its extensions per call)',
]

WRITE_ACTIONS = {sqlite3.SQLITE_INSERT, sqlite3.SQLITE_UPDATE, sqlite3.SQLITE_DELETE}


class Injected(Exception):
    pass


class InjectedBase(BaseException):
    """Like KeyboardInterrupt: not an Exception subclass."""


def make_handler(fail_at, counter, methods=('update', 'flash', 'set', 'close'),
                 exc=Injected):
    """ProgressHandler subclass counting calls (across instances) and raising at call k."""
    from wn.util import ProgressHandler

    class H(ProgressHandler):
        def _tick(self, name):
            if name in methods:
                counter['n'] += 1
                counter['log'].append(name)
                if fail_at is not None and counter['n'] == fail_at:
                    counter['fired_in'] = name
                    raise exc(f'progress call {fail_at} ({name})')

        def update(self, n=1, force=False):
            self._tick('update')
            super().update(n, force=force)

        def flash(self, message):
            self._tick('flash')

        def set(self, **kwargs):
            self._tick('set')
            self.kwargs.update(kwargs)

        def close(self):
            self._tick('close')

    return H


@st.composite
def _cases(draw, op=None):
    op = op or draw(st.sampled_from(['add', 'add', 'add', 'remove']))
    prof = gen.Profile(max_entries=3, max_synsets=3, allow_no_pos_synset=True)
    res = draw(gen.resources(prof, max_lexicons=3))
    initial = draw(st.sampled_from(['empty', 'unrelated', 'base']))
    if any(lx.get('extends') for lx in res['lexicons']) and draw(st.integers(0, 2)) > 0:
        # the base is installed and its extension is what the failing add brings
        initial = 'base'
    via = draw(st.sampled_from(['file', 'memory']))
    seedpos = draw(st.lists(st.integers(0, 10 ** 6), min_size=12, max_size=12))
    return {'op': op, 'resource': res, 'initial': initial, 'via': via,
            'positions': seedpos, 'style': draw(xmlw.styles()),
            # connections shared between threads (wn.config.allow_multithreading) must be as
            # transactional as the default ones
            'multithreading': draw(st.integers(0, 2)) == 0}


def _unrelated():
    return {'lmf_version': '1.1', 'lexicons': [{
        'id': 'zz', 'version': '9', 'label': 'unrelated', 'language': 'en', 'email': 'e',
        'license': 'l', 'meta': None,
        'entries': [{'id': 'zz-e', 'meta': None,
                     'lemma': {'writtenForm': 'zed', 'partOfSpeech': 'n'},
                     'senses': [{'id': 'zz-s', 'synset': 'zz-ss', 'meta': None,
                                 'relations': [{'target': 'zz-ss', 'relType': 'zz_rel',
                                                'meta': None}]}]}],
        'synsets': [{'id': 'zz-ss', 'ili': 'i1', 'partOfSpeech': 'n', 'meta': None,
                     'lexfile': 'noun.zz'}]}]}


def _split(case):
    """(initial resources, operation resource)."""
    res = case['resource']
    init = []
    if case['initial'] == 'unrelated':
        init.append(_unrelated())
    elif case['initial'] == 'base' and len(res['lexicons']) > 1:
        based = {(lx['extends']['id'], lx['extends']['version'])
                 for lx in res['lexicons'] if lx.get('extends')}
        pre = [lx for lx in res['lexicons']
               if not lx.get('extends') and (lx['id'], lx['version']) in based]
        init.append({'lmf_version': res['lmf_version'],
                     'lexicons': pre or [res['lexicons'][0]]})
    return init, res


# ---------------------------------------------------------------------------
# corruption operators: (kind, position) -> corrupted copy or None

def corruptions(res: dict) -> list:
    out = []
    n = 0
    for li, lx in enumerate(res['lexicons']):
        for ei, e in enumerate(lx.get('entries', [])):
            for si, s in enumerate(e.get('senses', [])):
                if not s.get('external'):
                    out.append(('sense-synset', (li, ei, si)))
                for ri, _ in enumerate(s.get('relations', [])):
                    out.append(('sense-relation-target', (li, ei, si, ri)))
            if not e.get('external'):
                out.append(('duplicate-entry-id', (li, ei)))
                if e.get('forms') or True:
                    out.append(('duplicate-form', (li, ei)))
        for si, ss in enumerate(lx.get('synsets', [])):
            for ri, _ in enumerate(ss.get('relations', [])):
                out.append(('synset-relation-target', (li, si, ri)))
    out.append(('truncated-file', (0,)))
    return out


def corrupt(res: dict, kind: str, pos: tuple):
    r = copy.deepcopy(res)
    if kind == 'sense-synset':
        li, ei, si = pos
        r['lexicons'][li]['entries'][ei]['senses'][si]['synset'] = 'no-such-synset'
    elif kind == 'sense-relation-target':
        li, ei, si, ri = pos
        r['lexicons'][li]['entries'][ei]['senses'][si]['relations'][ri]['target'] = 'no-such-id'
    elif kind == 'synset-relation-target':
        li, si, ri = pos
        r['lexicons'][li]['synsets'][si]['relations'][ri]['target'] = 'no-such-synset'
    elif kind == 'duplicate-entry-id':
        li, ei = pos
        e = copy.deepcopy(r['lexicons'][li]['entries'][ei])
        e.pop('senses', None)
        e.pop('frames', None)
        r['lexicons'][li]['entries'].append(e)
    elif kind == 'duplicate-form':
        li, ei = pos
        e = r['lexicons'][li]['entries'][ei]
        e.setdefault('forms', []).append({'writtenForm': e['lemma']['writtenForm'],
                                          'script': e['lemma'].get('script') or 'Dupl'})
        if not e['lemma'].get('script'):
            e['forms'].append({'writtenForm': e['lemma']['writtenForm'], 'script': 'Dupl'})
    return r


# ---------------------------------------------------------------------------

class Lab:
    """Base database file + helpers to run an operation on a fresh copy of it."""

    def __init__(self, case, work):
        import wn
        self.case = case
        self.work = work
        self.init, self.res = _split(case)
        self.xml = xmlw.write(self.res, work / 'op.xml', case['style'])
        base = env.fresh_db()
        wn.lexicons()
        for r in self.init:
            wn.add_lexical_resource(copy.deepcopy(r), progress_handler=None)
        if case['op'] == 'remove':
            # removal cases: everything is installed first (twice: extensions in the same file)
            wn.add_lexical_resource(copy.deepcopy(self.res), progress_handler=None)
            wn.add_lexical_resource(copy.deepcopy(self.res), progress_handler=None)
        env.close_pool()
        self.base_file = work / 'base.db'
        shutil.copyfile(base.file, self.base_file)
        self.base_raw = dumps.raw_dump(self.base_file)
        self.target = None
        if case['op'] == 'remove':
            inst = dumps.installed(self.base_file)
            own = [gen.spec_of(lx) for lx in self.res['lexicons']]
            cands = [s for s in inst if s in own]
            # prefer a lexicon that has extensions installed (its removal deletes several
            # lexicons in one transaction)
            bases = {gen.spec_of(lx) for lx in self.res['lexicons']
                     if any((x.get('extends') or {}).get('id') == lx['id']
                            and (x.get('extends') or {}).get('version') == lx['version']
                            and gen.spec_of(x) in inst for x in self.res['lexicons'])}
            pref = [s for s in cands if s in bases]
            if pref and case['positions'][1] % 4:
                cands = pref
            self.target = cands[case['positions'][0] % len(cands)] if cands else None

    def fresh_copy(self):
        env.close_pool()
        db = env.Db()
        shutil.copyfile(self.base_file, db.file)
        db.use()
        return db

    def run_op(self, handler, resource=None, xml=None):
        import wn
        import wn.lmf
        if self.case['op'] == 'remove':
            wn.remove(self.target, progress_handler=handler)
        elif self.case['via'] == 'file':
            wn.add(xml or self.xml, progress_handler=handler)
        else:
            wn.add_lexical_resource(copy.deepcopy(resource or self.res),
                                    progress_handler=handler)


def _spread(positions, total, limit):
    if total <= limit:
        return list(range(1, total + 1))
    picks = {1, total, max(1, total // 2)}
    for p in positions:
        picks.add(1 + p % total)
        if len(picks) >= limit:
            break
    return sorted(picks)


_LAST: dict = {}


def oracle(case, thorough=False):
    """The fault enumeration, under the connection settings the case asks for."""
    import wn
    env.close_pool()
    wn.config.allow_multithreading = bool(case.get('multithreading'))
    try:
        return _oracle(case, thorough)
    finally:
        env.close_pool()
        wn.config.allow_multithreading = False


def _oracle(case, thorough=False):
    import wn
    _LAST.clear()
    import wn._db
    work = env.new_dir('c06')
    lab = Lab(case, work)
    out: list[Disc] = []
    if case['op'] == 'remove' and lab.target is None:
        return out
    limit = 10 ** 9 if case.get('all_positions') else 12

    # ---- control run: counts K, J and the tables touched
    ctl = lab.fresh_copy()
    counter = {'n': 0, 'log': []}
    conn = wn._db.connect()
    auth = {'writes': 0}

    def count_auth(action, a1, a2, dbname, source):
        if action in WRITE_ACTIONS:
            auth['writes'] += 1
        return sqlite3.SQLITE_OK

    conn.set_authorizer(count_auth)
    try:
        lab.run_op(make_handler(None, counter))
    finally:
        conn.set_authorizer(None)
    K, J = counter['n'], auth['writes']
    ctl_raw = dumps.raw_dump(ctl.file)
    ctl_api = observe.observe_all_lexicons(deep=False, expand='')
    ctl_log = dumps.logical_dump(ctl.file)
    touched = [t for t in ctl_raw if t != '__schema__'
               and len(ctl_raw[t]) != len(lab.base_raw.get(t, []))]
    stats = _LAST
    stats.clear()
    stats.update({'K': K, 'J': J, 'touched': len(touched)})
    if ctl_raw == lab.base_raw:
        return out      # the operation is a no-op (everything skipped): nothing can fail midway

    counter_ = {'n': 0}

    def after_fault(db, label, raised, in_close=False, ticks=None):
        """Checks after a faulty run; returns False when the run must be abandoned."""
        conn = wn._db.pool.get(db.file)
        if conn is not None and conn.in_transaction:
            out.append(Disc('connection-left-in-transaction', label, False, True))
            conn.rollback()
        if conn is not None and ticks is not None and raised:
            # the failed call is over: its progress handler must not be called again, whatever
            # the library's connection executes next (a long statement makes SQLite invoke a
            # handler left installed; an exception from it would abort that later operation)
            n0 = ticks['n']
            conn.execute('WITH RECURSIVE c(x) AS (VALUES(1) UNION ALL SELECT x+1 FROM c '
                         'WHERE x < 60000) SELECT count(*) FROM c').fetchall()
            if ticks['n'] != n0:
                out.append(Disc('progress-handler-called-after-operation-ended', label,
                                'no further call', ticks['log'][n0:][:3]))
                conn.set_progress_handler(None, 0)
        now = dumps.raw_dump(db.file)
        if not raised:
            return 'not-triggered'
        if now != lab.base_raw:
            if in_close and now == ctl_raw:
                return 'completed-before-close'
            d = diff(lab.base_raw, now, limit=4)
            out.append(Disc('database-changed-by-failed-operation', label,
                            [x[1] for x in d], [(x[0], x[2]) for x in d]))
            return 'changed'
        problems = dumps.audit(db.file)
        if problems:
            out.append(Disc('audit-after-failure', label, [], problems))
        counter_['n'] += 1
        if counter_['n'] % 3 == 0 and lab.base_raw.get('lexicons'):
            # variant: the first thing done after the failure is a removal of what was
            # installed before (same pooled connection): it must cascade completely
            for spec in reversed(dumps.installed(db.file)):
                if any(lx.specifier() == spec for lx in wn.lexicons()):
                    wn.remove(spec, progress_handler=None)
            problems = dumps.audit(db.file)
            left = {t: len(rows) for t, rows in
                    dumps.raw_dump(db.file, skip=dumps.LOOKUP_TABLES).items()
                    if t != '__schema__' and rows}
            if problems or left:
                out.append(Disc('removal-after-failure-leaves-rows', label, {},
                                [problems, left]))
            return 'rolled-back'
        # the library stays usable: the valid operation now gives the normal result
        try:
            lab.run_op(None)
        except Exception as exc:  # noqa: BLE001
            out.append(Disc('valid-operation-fails-after-failure', label, 'success',
                            f'{type(exc).__name__}: {exc}'))
            return 'unusable'
        raw2 = dumps.raw_dump(db.file)
        if raw2 != ctl_raw:
            log2 = dumps.logical_dump(db.file)
            api2 = observe.observe_all_lexicons(deep=False, expand='')
            d = diff(ctl_log, log2, limit=3) + diff(ctl_api, api2, limit=3)
            if d:
                out.append(Disc('result-after-failure-differs', label,
                                [x[1] for x in d], [(x[0], x[2]) for x in d]))
        # ... and so do later operations on the same connection: removing what is installed
        # cascades completely (nothing the failure left switched off or cached)
        for spec in reversed(dumps.installed(db.file)):
            if any(lx.specifier() == spec for lx in wn.lexicons()):
                wn.remove(spec, progress_handler=None)
        problems = dumps.audit(db.file)
        left = {t: len(rows) for t, rows in dumps.raw_dump(db.file, skip=dumps.LOOKUP_TABLES).items()
                if t != '__schema__' and rows}
        if problems or left:
            out.append(Disc('removal-after-failure-leaves-rows', label, {}, [problems, left]))
        return 'rolled-back'

    tags = stats.setdefault('outcomes', {})

    def note(kind, res_):
        tags[f'{kind}:{res_}'] = tags.get(f'{kind}:{res_}', 0) + 1

    # ---- 1. progress-handler faults (ordinary exceptions and KeyboardInterrupt-like ones)
    for k in _spread(case['positions'], K, limit):
        kinds = (Injected, InjectedBase) if case.get('all_positions') else \
            ((Injected,) if k % 2 else (InjectedBase,))
        for exc in kinds:
            db = lab.fresh_copy()
            c = {'n': 0, 'log': []}
            raised = False
            held = None
            try:
                lab.run_op(make_handler(k, c, exc=exc))
            except (Injected, InjectedBase) as e:
                raised = True
                # the caller may still hold the exception (and with it the frames of the failed
                # call) while it goes on: a retry inside `except`, pytest.raises, a REPL
                held = e
            r = after_fault(db, f'progress k={k}/{K} ({c.get("fired_in")}) {exc.__name__}',
                            raised, in_close=c.get('fired_in') == 'close', ticks=c)
            del held
            note('progress' if exc is Injected else 'progress-baseexception', r)
            if len(out) > 6:
                return out

    # ---- 2. reference corruptions (add only)
    if case['op'] == 'add':
        cs = corruptions(lab.res)
        idxs = range(len(cs)) if len(cs) <= limit else \
            sorted({p % len(cs) for p in case['positions']})
        for i in idxs:
            kind, pos = cs[i]
            db = lab.fresh_copy()
            raised = False
            try:
                if kind == 'truncated-file':
                    data = lab.xml.read_bytes()
                    cut = work / 'cut.xml'
                    cut.write_bytes(data[:max(120, len(data) * 2 // 3)])
                    wn.add(cut, progress_handler=None)
                else:
                    bad = corrupt(lab.res, kind, pos)
                    if case['via'] == 'file':
                        lab.run_op(None, xml=xmlw.write(bad, work / 'bad.xml', case['style']))
                    else:
                        lab.run_op(None, resource=bad)
            except (wn.Error, sqlite3.Error, AssertionError, KeyError):
                raised = True
            r = after_fault(db, f'corruption {kind}@{pos}', raised)
            note(kind, r)
            if len(out) > 6:
                return out

    # ---- 3. denied SQL write statements
    for j in _spread(case['positions'][3:], J, limit):
        db = lab.fresh_copy()
        conn = wn._db.connect()
        seen = {'n': 0}

        def deny(action, a1, a2, dbname, source, j=j, seen=seen):
            if action in WRITE_ACTIONS:
                seen['n'] += 1
                if seen['n'] == j:
                    return sqlite3.SQLITE_DENY
            return sqlite3.SQLITE_OK

        conn.set_authorizer(deny)
        raised = False
        try:
            lab.run_op(None)
        except sqlite3.DatabaseError:
            raised = True
        finally:
            conn.set_authorizer(None)
        r = after_fault(db, f'authorizer denies write {j}/{J}', raised)
        note('authorizer', r)
        if len(out) > 6:
            return out

    # ---- 4. aborted rows (TEMP triggers; fire inside FK cascades too)
    verb = 'DELETE' if case['op'] == 'remove' else 'INSERT'
    for t in touched:
        n0 = len(lab.base_raw.get(t, []))
        n1 = len(ctl_raw[t])
        delta = abs(n1 - n0)
        for r_ in sorted({0, delta // 2, delta - 1}):
            db = lab.fresh_copy()
            conn = wn._db.connect()
            at = n0 + r_ if verb == 'INSERT' else n0 - r_
            conn.execute(
                f'CREATE TEMP TRIGGER wnv_abort BEFORE {verb} ON main.{t} '
                f'WHEN (SELECT count(*) FROM main.{t}) = {at} '
                f"BEGIN SELECT RAISE(ABORT, 'injected'); END")
            conn.commit()
            raised = False
            try:
                lab.run_op(None)
            except sqlite3.DatabaseError:
                raised = True
            finally:
                conn.execute('DROP TRIGGER IF EXISTS wnv_abort')
                conn.commit()
            res_ = after_fault(db, f'trigger aborts {verb} row {r_ + 1}/{delta} of {t}', raised)
            note('trigger', res_)
            if len(out) > 6:
                return out
    return out


def oracle_all(case):
    c = dict(case)
    c['all_positions'] = True
    return oracle(c)


def _classify(case):
    stats = dict(_LAST)
    tags = ['op:' + case['op'], 'via:' + case['via'], 'initial:' + case['initial']]
    oc = stats.get('outcomes', {})
    rolled = sum(v for k, v in oc.items() if k.endswith(':rolled-back'))
    if any(lx.get('extends') for lx in case['resource']['lexicons']):
        tags.append('extension')
    if len(case['resource']['lexicons']) > 1:
        tags.append('multi-lexicon')
    if case.get('multithreading'):
        tags.append('multithreading-allowed')
    tags = sorted(set(tags))
    # one tag occurrence per injected fault, by kind and outcome (the class histogram
    # therefore counts fault injections, not documents)
    for k, v in sorted(oc.items()):
        tags.extend([k] * v)
    if rolled:
        tags.extend(['fault-verified-rolled-back'] * rolled)
    return rolled >= 3, tags


def _fp(case):
    return fingerprint(case)


def _sample(case):
    return {'op': case['op'], 'via': case['via'], 'initial': case['initial'],
            'lexicons': [gen.spec_of(lx) + (' ext' if lx.get('extends') else '')
                         + f" e{len(lx.get('entries', []))} s{len(lx.get('synsets', []))}"
                         for lx in case['resource']['lexicons']],
            'positions': case['positions'][:4]}


# ---------------------------------------------------------------------------
# a resource far larger than SQLite's page cache: what was written to the file before the
# failure must be rolled back as well

def _big_lexicon(n: int, dangling: bool) -> dict:
    entries, synsets = [], []
    for i in range(n):
        sense = {'id': f'big-e{i}-s', 'synset': f'big-ss{i}', 'meta': None}
        entries.append({'id': f'big-e{i}', 'meta': None,
                        'lemma': {'writtenForm': f'word {i}', 'partOfSpeech': 'n'},
                        'senses': [sense]})
        synsets.append({'id': f'big-ss{i}', 'ili': '', 'partOfSpeech': 'n', 'meta': None,
                        'definitions': [{'text': f'definition number {i} ' * 3, 'meta': None}]})
    if dangling:    # the very last relation points nowhere: the add fails at its end
        entries[-1]['senses'][0]['relations'] = [
            {'target': 'big-no-such-sense', 'relType': 'antonym', 'meta': None}]
    return {'id': 'big', 'version': '1', 'label': 'big', 'language': 'en', 'email': 'e',
            'license': 'l', 'meta': None, 'entries': entries, 'synsets': synsets}


def _large_enum(tier, shard, nshards):
    sizes = [8000, 12000, 8000, 12000] if tier == 'quick' else \
        [8000, 12000, 20000, 30000, 8000, 12000, 20000, 30000]
    for i, n in enumerate(sizes):
        if i % nshards == shard:
            yield {'n': n, 'fault': 'dangling-relation' if i < len(sizes) // 2
                   else 'progress-late'}


def _large_classify(case):
    return True, ['large:' + case['fault'], f'entries:{case["n"]}']


def _large_oracle(case):
    import wn
    from wn.util import ProgressHandler
    out: list[Disc] = []
    db = env.fresh_db()
    small = {'lmf_version': '1.1', 'lexicons': [
        {'id': 'small', 'version': '1', 'label': 's', 'language': 'en', 'email': 'e',
         'license': 'l', 'meta': None,
         'synsets': [{'id': 'small-ss0', 'ili': 'i1', 'partOfSpeech': 'n', 'meta': None}]}]}
    wn.add_lexical_resource(small, progress_handler=None)
    before = dumps.raw_dump(db.file)
    n = case['n']
    calls = {'n': 0}

    class Late(ProgressHandler):
        def update(self, n_=1, force=False):
            calls['n'] += n_
            if calls['n'] > 2.5 * n:          # entries, senses and synsets are in by then
                raise Injected('late')

    bad = {'lmf_version': '1.1',
           'lexicons': [_big_lexicon(n, dangling=case['fault'] == 'dangling-relation')]}
    raised = None
    try:
        wn.add_lexical_resource(bad, progress_handler=Late if case['fault'] == 'progress-late'
                                else None)
    except (Injected, wn.Error, sqlite3.Error) as e:
        raised = e
    if raised is None:
        raise env.HarnessError('the large add was meant to fail')
    label = f'{case["fault"]} n={n}'
    try:
        after = dumps.raw_dump(db.file)
        problems = dumps.audit(db.file)
    except sqlite3.DatabaseError as e:
        return [Disc('database-unreadable-after-failed-operation', label, 'unchanged database',
                     f'{type(e).__name__}: {e}')]
    d = diff(before, after, limit=4)
    if d:
        out.append(Disc('database-changed-by-failed-operation', label,
                        [x[1] for x in d], [(x[0], x[2]) for x in d]))
    if problems:
        out.append(Disc('audit-after-failure', label, [], problems[:5]))
    if out:
        return out
    # the library stays usable: the valid variant is added completely
    try:
        wn.add_lexical_resource({'lmf_version': '1.1', 'lexicons': [_big_lexicon(n, False)]},
                                progress_handler=None)
        w = wn.Wordnet('big:1')
        got = [len(w.words()), len(w.senses()), len(w.synsets())]
    except Exception as e:  # noqa: BLE001
        return [Disc('valid-operation-fails-after-failure', label, 'success',
                     f'{type(e).__name__}: {e}')]
    if got != [n, n, n]:
        out.append(Disc('result-after-failure-differs', label, [n, n, n], got))
    return out


SUBS = [
    Sub('large-resource', _large_oracle, _large_classify, enumerate=_large_enum,
        exhaustive_note='fixed sizes (8000-30000 entries, several MB of rows: beyond the page '
                        'cache), failure at the very end of the add',
        sample=lambda c: c, purge_every=1, case_timeout=600),
    Sub('faults-sampled', oracle, _classify,
        strategy=lambda tier: _cases(), budget={'quick': 25, 'thorough': 10},
        fingerprint=_fp, sample=_sample, purge_every=1,
        require_tags=('progress:rolled-back', 'progress-baseexception:rolled-back',
                      'authorizer:rolled-back', 'trigger:rolled-back',
                      'op:remove', 'multithreading-allowed')),
    Sub('faults-all-positions', oracle_all, _classify,
        strategy=lambda tier: _cases(), budget={'quick': 4, 'thorough': 100},
        fingerprint=_fp, sample=_sample, purge_every=1),
]
