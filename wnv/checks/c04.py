"""C04 - Queries stay inside the selected lexicons and ignore unrelated ones."""

from __future__ import annotations

import re

from hypothesis import strategies as st

from .. import env, gen, observe
from ..canon import diff, fingerprint
from ..harness import Disc, Sub
from ..observe import call, key_of, _raised

PROPERTY = 'C04'
LEVEL = 'exploration'
RULE = ('Hypothesis draws a universe of related lexicons (two versions of one id sharing all '
        'entry/sense/synset ids, an unrelated lexicon with the same ids, forms and ILIs, an '
        'extension and an extension of the extension, a lexicon with dependencies), a Wordnet '
        'configuration (default mode; explicit id:version lists; lang; expand default / "" / '
        'explicit) and a set of outsiders constructed to lie outside the selection, its expand set, '
        'its declared dependencies and the bases it needs. Oracle A (membership): every entity key '
        'in the full observation (listings, navigation, relation targets and defining lexicons, form '
        '/ id / ILI look-ups, translation) belongs to the selection, or in default mode to the '
        'start entity\'s extension family, or is the documented placeholder. Oracle B '
        '(non-interference): observation before adding the outsiders == after adding them == after '
        'removing them again. Non-trivial: some outsider shares an id, a written form or an ILI '
        'with the selection or extends a member of it; distinct by (universe, arguments, outsiders).')
ASSUMPTIONS = [
    'selection arguments use full id:version specifiers, so the selection itself is fixed',
    'for lang selections the outsiders have another language (else they would be selected)',
    'order of listings across lexicons is not compared (observations are keyed by lexicon|id)',
]

KEY_RE = re.compile(r'^([^|]+:[^|]+)\|')


def _bases(spec, deps):
    out = []
    while deps.get(spec):
        spec = deps[spec]
        out.append(spec)
    return out


def _extensions(spec, deps):
    out, frontier = [], [spec]
    while frontier:
        nxt = [s for s, b in deps.items() if b in frontier and s not in out]
        out.extend(nxt)
        frontier = nxt
    return out


@st.composite
def _cases(draw):
    u = draw(gen.universes(ext_new_forms=True))
    docs = u['lexicons']
    specs = [gen.spec_of(d) for d in docs]
    deps = gen.universe_deps(docs)
    bydoc = dict(zip(specs, docs))
    mode = draw(st.sampled_from(['default', 'lexicon', 'lexicon', 'lexicon', 'lang', 'placeholder',
                                 'placeholder', 'siblings', 'siblings']))
    if mode == 'siblings':
        # default mode with default expansion and (if x:1 and w:1 are there) the sibling chain
        sel = {'lexicon': None, 'lang': None, 'expand': None}
        _sibling_chain(bydoc)
        return {'universe': u, 'selection': sel, 'insiders': specs, 'outsiders': []}
    sel = {'lexicon': None, 'lang': None, 'expand': None}
    if mode == 'placeholder':
        # constructed: a:1 selected and expanded over b:1 so that a:1's first synset reaches an
        # ILI only b:1 has (a placeholder); an outsider carries that ILI with relations of its own
        third = [s for s in specs if s in ('a:2', 'r:1')]
        if 'b:1' in bydoc and third and len(bydoc['b:1'].get('synsets', [])) >= 2:
            a1, b1 = bydoc['a:1'], bydoc['b:1']
            a1['synsets'][0]['ili'] = 'iq'
            b1['synsets'][0]['ili'] = 'iq'
            b1['synsets'][1]['ili'] = 'ip'
            b1['synsets'][0].setdefault('relations', []).append(
                {'target': b1['synsets'][1]['id'], 'relType': 'hypernym', 'meta': None})
            for t in third:
                o = bydoc[t]
                if not o.get('synsets'):
                    continue
                o['synsets'][0]['ili'] = 'ip'
                if len(o['synsets']) >= 2:
                    o['synsets'][1]['ili'] = draw(st.sampled_from(['ir', 'iq', 'ip']))
                    o['synsets'][0].setdefault('relations', []).append(
                        {'target': o['synsets'][1]['id'], 'relType': 'hypernym', 'meta': None})
            sel['lexicon'], sel['expand'] = 'a:1', 'b:1'
            insiders = ['a:1', 'b:1']
            outsiders = [s for s in specs if s not in insiders]
            return {'universe': u, 'selection': sel, 'insiders': insiders, 'outsiders': outsiders}
        mode = 'lexicon'
    if mode == 'default':
        sel['expand'] = draw(st.sampled_from([None, '']))
        _sibling_chain(bydoc)
        return {'universe': u, 'selection': sel, 'insiders': specs, 'outsiders': []}
    if mode == 'lexicon':
        S = draw(st.lists(st.sampled_from(specs), min_size=1, max_size=3, unique=True))
        sel['lexicon'] = ' '.join(S)
        rest = [s for s in specs if s not in S]
        ex = draw(st.sampled_from(['default', 'empty', 'explicit']))
        E = []
        if ex == 'empty':
            sel['expand'] = ''
        elif ex == 'explicit' and rest:
            E = [draw(st.sampled_from(rest))]
            sel['expand'] = ' '.join(E)
        inside = set(S) | set(E)
        if sel['expand'] is None:
            for s in S:
                for dep in bydoc[s].get('requires', []):
                    inside.add(f"{dep['id']}:{dep['version']}")
        for s in list(inside):
            inside.update(_bases(s, deps))
        insiders = [s for s in specs if s in inside]
        # some lexicons that are neither selected nor outsiders may be installed throughout
        others = [s for s in specs if s not in inside]
        outsiders = [s for s in others if draw(st.integers(0, 3)) > 0]
    else:
        lang = draw(st.sampled_from(['en', 'es', 'ja']))
        sel['lang'] = lang
        sel['expand'] = draw(st.sampled_from([None, '']))
        insiders0 = [s for s in specs if draw(st.integers(0, 2)) > 0]
        inside = set(insiders0)
        for s in list(inside):
            inside.update(_bases(s, deps))
            if sel['expand'] is None and bydoc[s]['language'] == lang:
                for dep in bydoc[s].get('requires', []):
                    inside.add(f"{dep['id']}:{dep['version']}")
        for s in list(inside):
            inside.update(_bases(s, deps))
        insiders = [s for s in specs if s in inside]
        outsiders = [s for s in specs if s not in inside and bydoc[s]['language'] != lang]
    # an outsider extension needs its base installed: keep only those whose base is
    # an insider or an earlier outsider
    ok = []
    for s in outsiders:
        b = deps.get(s)
        if b is None or b in insiders or b in ok:
            ok.append(s)
    return {'universe': u, 'selection': sel, 'insiders': insiders, 'outsiders': ok}


def _sibling_chain(bydoc) -> bool:
    """Constructed (when x:1, w:1 - two extensions of a:1 - and a third lexicon with two synsets are there): a synset of x:1
    and one of w:1 carry the two ends of a hypernym link that only the third lexicon declares.  In default mode
    the borrowed link leads x:1's synset to a placeholder: w:1 is not in x:1's family."""
    third = next((k for k in ('b:1', 'a:2', 'r:1')
                  if k in bydoc and len(bydoc[k].get('synsets', [])) >= 2), None)
    if 'x:1' not in bydoc or 'w:1' not in bydoc or third is None:
        return False
    for k in ('x:1', 'w:1'):
        if not any(not ss.get('external') for ss in bydoc[k].get('synsets', [])):
            bydoc[k].setdefault('synsets', []).append(
                {'id': f'{k[0]}{k[0]}-ssq', 'ili': '', 'meta': None, 'partOfSpeech': 'n'})
    xs = [ss for ss in bydoc['x:1'].get('synsets', []) if not ss.get('external')]
    ws = [ss for ss in bydoc['w:1'].get('synsets', []) if not ss.get('external')]
    bs = bydoc[third].get('synsets', [])
    xs[0]['ili'], ws[0]['ili'] = 'iq', 'ip'
    xs[0].pop('ili_definition', None)
    ws[0].pop('ili_definition', None)
    bs[0]['ili'], bs[1]['ili'] = 'iq', 'ip'
    for b_ in bs[:2]:
        b_.pop('ili_definition', None)
    bs[0].setdefault('relations', []).append(
        {'target': bs[1]['id'], 'relType': 'hypernym', 'meta': None})
    return True


def _ids(docs):
    e, s, ss = set(), set(), set()
    for d in docs:
        for en in d.get('entries', []):
            e.add(en['id'])
            for sn in en.get('senses', []):
                s.add(sn['id'])
        for sy in d.get('synsets', []):
            ss.add(sy['id'])
    return sorted(e), sorted(s), sorted(ss)


def _classify(case):
    docs = case['universe']['lexicons']
    bydoc = {gen.spec_of(d): d for d in docs}
    deps = gen.universe_deps(docs)
    tags = ['mode:' + ('default' if not case['selection']['lexicon'] and not
                       case['selection']['lang'] else
                       'lang' if case['selection']['lang'] else 'lexicon'),
            'expand:' + {None: 'default', '': 'empty'}.get(case['selection']['expand'], 'explicit')]
    sel = (case['selection']['lexicon'] or '').split()
    nt = False
    if tags[0] == 'mode:default' and tags[1] == 'expand:default' and 'x:1' in bydoc \
            and 'w:1' in bydoc and any(ss.get('ili') == 'iq' for ss in bydoc['x:1'].get('synsets', [])):
        tags.append('sibling-extensions-linked-through-a-third-lexicon')
        nt = True
    for o in case['outsiders']:
        tags.append('outsider')
        if deps.get(o) in sel or any(b in sel for b in _bases(o, deps)):
            tags.append('outsider-extends-selected')
            nt = True
        if any(o.split(':')[0] == s.split(':')[0] for s in sel):
            tags.append('outsider-other-version-of-selected')
        ei, si, ssi = _ids([bydoc[o]])
        se, ss_, sss = _ids([bydoc[s] for s in sel if s in bydoc])
        if set(ei) & set(se) or set(ssi) & set(sss):
            tags.append('outsider-shares-ids')
            nt = True
    if (case['selection']['expand'] == 'b:1' and 'a:1' in bydoc
            and bydoc['a:1'].get('synsets') and bydoc['a:1']['synsets'][0].get('ili') == 'iq'
            and any(sy.get('ili') == 'ip' for o in case['outsiders']
                    for sy in bydoc[o].get('synsets', []))):
        tags.append('outsider-shares-ili-with-placeholder')
        nt = True
    if not case['outsiders'] and tags[0] == 'mode:default':
        nt = len(docs) > 1
    return nt, sorted(set(tags))


def _keys(lst):
    if _raised(lst):
        return lst
    return [key_of(x) for x in lst]


def extra_queries(w, docs, sel_specs) -> dict:
    """Look-ups by form, id and ILI, and translation."""
    o = {}
    forms = list(gen.UNIVERSE_FORMS) + ['CAT', 'Resume', 'san jose']
    for f in forms:
        for pos in (None, 'n'):
            o[f'words({f!r},{pos})'] = _keys(call(w.words, f, pos))
            o[f'senses({f!r},{pos})'] = _keys(call(w.senses, f, pos))
            o[f'synsets({f!r},{pos})'] = _keys(call(w.synsets, f, pos))
    ei, si, ssi = _ids(docs)
    for i in ei:
        o[f'word({i})'] = key_of(call(w.word, i))
    for i in si:
        o[f'sense({i})'] = key_of(call(w.sense, i))
    for i in ssi:
        o[f'synset({i})'] = key_of(call(w.synset, i))
    for ili in ('i1', 'i2', 'i3'):
        r = call(w.ili, ili)
        o[f'ili({ili})'] = r if _raised(r) else {'id': r.id, 'status': r.status}
        o[f'synsets(ili={ili})'] = _keys(call(w.synsets, None, None, ili))
    for st_ in ('presupposed', 'proposed', 'active'):
        o[f'ilis({st_})'] = sorted(str(x.id) for x in w.ilis(status=st_))
    # translation into members of the selection
    for ss in w.synsets():
        for t in sel_specs[:2]:
            o[f'translate({key_of(ss)}->{t})'] = _keys(call(ss.translate, t))
    for s in w.senses()[:4]:
        for t in sel_specs[:1]:
            o[f'sense-translate({key_of(s)}->{t})'] = _keys(call(s.translate, t))
    return o


def _observe(sel, docs):
    w, warns = observe.make_wordnet(sel['lexicon'], sel['lang'], sel['expand'])
    if _raised(w):
        return w
    o = observe.observe(w)
    # links to other installed lexicons legitimately follow what is installed (C05)
    for rec in o['lexicons'].values():
        for k in ('requires', 'extensions', 'extensions_all'):
            rec.pop(k, None)
    o['warnings'] = warns
    o['queries'] = extra_queries(w, docs, sorted(observe.lexspec(lx) for lx in w.lexicons()))
    return o


def _as_expected(o):
    """Observation used as the expected side: unordered children as multisets."""
    if isinstance(o, dict):
        return {k: ({'__multiset__': v} if k in ('tags', 'pronunciations') and isinstance(v, list)
                    else _as_expected(v)) for k, v in o.items()}
    if isinstance(o, list):
        return [_as_expected(v) for v in o]
    return o


def _walk_keys(x, acc):
    if isinstance(x, str):
        m = KEY_RE.match(x)
        if m:
            acc.append(m.group(1))
    elif isinstance(x, dict):
        for k, v in x.items():
            _walk_keys(v, acc)
    elif isinstance(x, list):
        for v in x:
            _walk_keys(v, acc)


def membership(o, selected, default_mode, deps, out):
    """Oracle A: every entity reached belongs to the selection / family."""
    S = set(selected)

    def family(spec):
        return {spec} | set(_bases(spec, deps)) | set(_extensions(spec, deps))

    for kind in ('words', 'senses', 'synsets'):
        for k, rec in o.get(kind, {}).items():
            m = KEY_RE.match(k)
            own = m.group(1) if m else None
            if own not in S:
                out.append(Disc('listing-outside-selection', f'/{kind}/{k}', sorted(S), own))
                continue
            allowed = family(own) if default_mode else S
            acc = []
            _walk_keys(rec, acc)
            bad = sorted({a for a in acc if a not in allowed})
            if bad:
                out.append(Disc('navigation-leaves-scope', f'/{kind}/{k}', sorted(allowed), bad))
    acc = []
    _walk_keys(o.get('queries', {}), acc)
    bad = sorted({a for a in acc if a not in S})
    if bad:
        out.append(Disc('lookup-outside-selection', '/queries', sorted(S), bad))


def oracle(case):
    import wn
    u = case['universe']
    docs = u['lexicons']
    bydoc = {gen.spec_of(d): d for d in docs}
    deps = gen.universe_deps(docs)
    sel = case['selection']
    out: list[Disc] = []
    env.fresh_db()

    def add(spec):
        wn.add_lexical_resource({'lmf_version': u['lmf_version'], 'lexicons': [bydoc[spec]]},
                                progress_handler=None)

    for s in case['insiders']:
        if s in bydoc:
            add(s)
    o1 = _observe(sel, docs)
    if _raised(o1):
        return out      # nothing selected: trivial
    default_mode = not sel['lexicon'] and not sel['lang']
    selected = sorted(o1['lexicons'])
    membership(o1, selected, default_mode, deps, out)
    if case['outsiders']:
        for s in case['outsiders']:
            add(s)
        o2 = _observe(sel, docs)
        if _raised(o2):
            out.append(Disc('selection-fails-after-adding-outsiders', '', 'observation', o2))
            return out
        membership(o2, selected, default_mode, deps, out)
        for p, e, g in diff(_as_expected(o1), o2, limit=8):
            out.append(Disc('changed-by-adding-outsider', p, e, g))
        for s in reversed(case['outsiders']):
            if any(lx.specifier() == s for lx in wn.lexicons()):
                wn.remove(s, progress_handler=None)
        o3 = _observe(sel, docs)
        for p, e, g in diff(_as_expected(o1), o3, limit=8):
            out.append(Disc('changed-by-removing-outsider', p, e, g))
    return out


def _sample(case):
    return {'selection': case['selection'], 'insiders': case['insiders'],
            'outsiders': case['outsiders'],
            'universe': [{'spec': gen.spec_of(d), 'language': d['language'],
                          'extends': d.get('extends'), 'requires': d.get('requires'),
                          'entries': [e['id'] for e in d.get('entries', [])],
                          'synsets': [(s['id'], s.get('ili')) for s in d.get('synsets', [])]}
                         for d in case['universe']['lexicons']]}


@st.composite
def _history_cases(draw):
    u = draw(gen.universes(ext_new_forms=True))
    specs = [gen.spec_of(d) for d in u['lexicons']]
    deps = gen.universe_deps(u['lexicons'])
    exts = [s_ for s_ in specs if deps.get(s_)]
    steps = []
    plain = [s_ for s_ in specs if not deps.get(s_) and s_ != 'a:1']
    if 'x:1' in specs and plain and draw(st.integers(0, 2)) > 0:
        # an extension is the most recently added lexicon, goes away, and a plain lexicon
        # arrives in its place
        later = draw(st.sampled_from(plain))
        early = [p_ for p_ in plain if p_ != later and draw(st.booleans())]
        steps = [['add', 'a:1']] + [['add', p_] for p_ in early] + [['add', 'x:1']]
        if 'y:1' in specs and draw(st.booleans()):
            steps.append(['add', 'y:1'])
        steps += [['remove', 'x:1'], ['add', later]]
    for _ in range(draw(st.integers(2, 10))):
        kind = draw(st.sampled_from(['add', 'add', 'add', 'remove']))
        pool = specs + exts * 2 if kind == 'remove' else specs
        steps.append([kind, draw(st.sampled_from(pool))])
    return {'universe': u, 'steps': steps, 'expand': draw(st.sampled_from([None, None, '']))}


def history_oracle(case):
    """Default mode across a history in one process: navigation and relation traversal from an
    entity stay inside its lexicon's extension family also after lexicons were removed and
    others added in their place (row ids get reused).  Checked after every step."""
    import wn
    u = case['universe']
    docs = u['lexicons']
    bydoc = {gen.spec_of(d): d for d in docs}
    deps = gen.universe_deps(docs)
    sel = {'lexicon': None, 'lang': None, 'expand': case['expand']}
    out: list[Disc] = []
    env.fresh_db()
    wn.lexicons()

    def check(label):
        o = _observe(sel, docs)
        if _raised(o):
            return
        before = len(out)
        membership(o, sorted(o['lexicons']), True, deps, out)
        for d in out[before:]:
            d.path = f'{label}{d.path}'

    for i, (kind, spec) in enumerate(case['steps']):
        installed = {lx.specifier() for lx in wn.lexicons()}
        if kind == 'add':
            if spec in installed or (deps.get(spec) and deps[spec] not in installed):
                continue
            wn.add_lexical_resource({'lmf_version': u['lmf_version'],
                                     'lexicons': [bydoc[spec]]}, progress_handler=None)
        else:
            if spec not in installed:
                continue
            wn.remove(spec, progress_handler=None)
        check(f'step{i}:{kind}:{spec}')
        if len(out) > 6:
            break
    return out


def _history_classify(case):
    docs = case['universe']['lexicons']
    deps = gen.universe_deps(docs)
    tags = ['history']
    installed = []
    freed_then_added = False
    freed = False
    for kind, spec in case['steps']:
        if kind == 'add' and spec not in installed and (not deps.get(spec)
                                                         or deps[spec] in installed):
            installed.append(spec)
            if freed and not deps.get(spec):
                freed_then_added = True
        elif kind == 'remove' and spec in installed:
            gone = [spec] + [x for x in _extensions(spec, deps) if x in installed]
            if installed and installed[-1] in gone and deps.get(spec):
                freed = True
                tags.append('history:removed-last-added-extension')
            installed = [x for x in installed if x not in gone]
    if freed_then_added:
        tags.append('history:plain-lexicon-added-after-extension-removed')
    return len(docs) > 2, tags


SUBS = [
    Sub('default-mode-history', history_oracle, _history_classify,
        strategy=lambda tier: _history_cases(), budget={'quick': 100, 'thorough': 600},
        fingerprint=lambda c: fingerprint(c),
        sample=lambda c: {'lexicons': [gen.spec_of(d) for d in c['universe']['lexicons']],
                          'steps': c['steps'], 'expand': c['expand']},
        require_tags=('history:plain-lexicon-added-after-extension-removed',)),
    Sub('scoping', oracle, _classify, strategy=lambda tier: _cases(),
        budget={'quick': 150, 'thorough': 1000}, sample=_sample,
        fingerprint=lambda c: fingerprint([c['universe'], c['selection'], c['outsiders']]),
        require_tags=('outsider-extends-selected', 'outsider-shares-ids', 'mode:default',
                      'mode:lang', 'outsider-shares-ili-with-placeholder',
                      'sibling-extensions-linked-through-a-third-lexicon')),
]
