"""C01 - The query API reports exactly the content of every added lexicon."""

from __future__ import annotations

from hypothesis import strategies as st

from .. import dumps, env, gen, observe, xmlw
from ..canon import diff, fingerprint
from ..harness import Disc, Sub
from ..refdb import RefDB

PROPERTY = 'C01'
LEVEL = 'exploration'
RULE = ('Hypothesis draws a resource (1-3 lexicons, LMF 1.0-1.3, extensions built against an '
        'earlier lexicon with the documented extension patterns, every optional attribute/child '
        'present or absent, XML-special and non-BMP characters, metadata everywhere) and a writer '
        'style; the file is added with wn.add (twice when an extension shares the file with its '
        'base, because the pre-check decides skips against the database before the call). Oracle: '
        'reference database built from the model; for every lexicon L observe(Wordnet(L, expand="")) '
        '== expected; for every extension X of B the same through Wordnet("B X"); and through the '
        'unrestricted default mode. Equality of canonical observations (order-sensitive for forms, '
        'senses of an entry, members; multisets where no order is promised). A second family builds '
        'documents with exactly 999/1000/1001/2000/2001 synsets / entries / sense relations '
        '(BATCH_SIZE boundaries); a third adds universes of lexicons that reuse each other\'s '
        'identifiers (two versions, unrelated lexicon with the same ids, extension chains), one '
        'file per lexicon; a fourth first runs a history of adds, failing adds, removals and reopens '
        'of *other* lexicons in the same process and database and then adds the resource under test. '
        'Non-trivial: >=1 entry and >=1 synset and one of metadata, tag, '
        'pronunciation, count, frame, example, definition, proposed ILI, special character, '
        'extension; distinct by fingerprint of the model.')
ASSUMPTIONS = [
    'identifiers are unique within a resource (prefixed by lexicon id), as WN-LMF requires',
    'element text holds no Unicode whitespace other than single interior U+0020',
    'optional attribute empty == absent; metadata values empty == absent',
    'ILI definition of a presupposed ILI: first synset (document order) that mentions the ILI wins',
    'senses of equal rank contributed by different lexicons may come in either order',
]

_NT = {'meta:lexicon', 'meta:entry', 'meta:sense', 'meta:synset', 'meta:count', 'tag',
       'pronunciation', 'count', 'frames:entry', 'frames:lexicon', 'sense-example',
       'synset-example', 'definition', 'proposed-ili', 'special-chars', 'extension'}


@st.composite
def _cases(draw, force_extension=False):
    if force_extension:
        prof = gen.FRAMES_PLUS
        v = draw(st.sampled_from(['1.1', '1.2', '1.3']))
        b = gen._B(draw, prof, v)
        base = gen.draw_lexicon(b, 'la', draw(st.sampled_from(gen.LEX_VERSIONS)),
                                n_entries=draw(st.integers(1, 3)),
                                n_synsets=draw(st.integers(1, 3)))
        lexs = [base, gen.draw_extension(b, 'lb', draw(st.sampled_from(gen.LEX_VERSIONS)), base)]
        if draw(st.booleans()):
            lexs.append(gen.draw_extension(b, 'lc', '1', lexs[draw(st.integers(0, 1))]))
        res = {'lmf_version': v, 'lexicons': lexs}
    else:
        res = draw(gen.resources(gen.FRAMES_PLUS, max_lexicons=3))
    return {'resource': res, 'style': draw(xmlw.styles())}


def _classify(case):
    tags = gen.resource_tags(case['resource'])
    nt = 'entry' in tags and 'synset' in tags and bool(_NT & set(tags))
    return nt, tags


def _check_db(model_res, out: list, label: str = '') -> None:
    """Compare the current database with the reference built from *model_res*
    (one resource added twice, or a list of resources each added once)."""
    ref = RefDB()
    if isinstance(model_res, list):
        for r in model_res:
            ref.add_resource(r)
    else:
        ref.add_resource(model_res)
        ref.add_resource(model_res)
    installed = dumps.installed(env_db().file)
    if sorted(installed) != sorted(ref.installed()):
        out.append(Disc('installed-set', label, sorted(ref.installed()), sorted(installed)))
        return
    views = []
    for L in ref.lexs:
        views.append(([L.spec], f'Wordnet({L.spec})'))
    for L in ref.lexs:
        if L.base is not None:
            chain = [x.spec for x in reversed(ref.bases_of(L))] + [L.spec]
            views.append((chain, f'Wordnet({" ".join(chain)})'))
    views.append((None, 'Wordnet()'))
    for specs, name in views:
        lexarg = ' '.join(specs) if specs else None
        got = observe.observe_selection(lexarg, expand='')
        if '__raises__' in got:
            out.append(Disc('selection-raises', name, 'observation', got))
            continue
        got.pop('warnings', None)
        exp = ref.view(specs, expand_specs=[]).expected()
        _drop_relations(exp)
        _drop_relations(got)
        for p, e, g in diff(exp, got, limit=12):
            out.append(Disc(_kind(p), f'{name}{p}', e, g))
        if len(out) > 30:
            return


_REL_KEYS = ('relation_map', 'relations', 'get_related', 'related_synsets', 'inferred_next',
             'related_synsets_by_type', 'hypernyms', 'hyponyms')


def _drop_relations(obs: dict) -> None:
    """Relations are the subject of C11/C12, not of C01's statement."""
    for kind in ('senses', 'synsets'):
        for rec in obs.get(kind, {}).values():
            for k in _REL_KEYS:
                rec.pop(k, None)


def _kind(path: str) -> str:
    """Bucket a diff path into a stable discrepancy kind."""
    import re
    p = re.sub(r'/[^/]*\|[^/\[]*', '/<key>', path)     # entity keys
    p = re.sub(r'\[\d+\]', '[]', p)
    parts = [x for x in p.split('/') if x and x != '<key>']
    return 'content:' + '/'.join(parts[:3])


_current_db = None


def env_db():
    return _current_db


def oracle(case):
    global _current_db
    import wn
    res = case['resource']
    d = env.new_dir('c01')
    f = xmlw.write(res, d / 'doc.xml', case.get('style'))
    _current_db = env.fresh_db()
    wn.add(f, progress_handler=None)
    wn.add(f, progress_handler=None)   # installs extensions skipped in the first pass
    out: list[Disc] = []
    _check_db(res, out)
    return out


# ---------------------------------------------------------------------------
# lexicons that reuse each other's identifiers (two versions of one lexicon, an unrelated
# lexicon with the same ids, extensions): every INSERT must resolve ids within the right lexicon

@st.composite
def _shared_cases(draw):
    u = draw(gen.universes(special=draw(st.booleans())))
    return {'universe': u, 'style': draw(xmlw.styles()), 'bundle': draw(st.booleans())}


def _shared_groups(case):
    """One resource per lexicon, or (bundle) a:1 first and then ONE resource holding the extension
    of a:1 followed by the plain lexicons that reuse its ids."""
    docs = case['universe']['lexicons']
    if not case.get('bundle'):
        return [[d] for d in docs]
    a1 = [d for d in docs if gen.spec_of(d) == 'a:1']
    ext = [d for d in docs if gen.spec_of(d) == 'x:1']
    later = [d for d in docs if d.get('extends') and gen.spec_of(d) != 'x:1']
    plain = [d for d in docs if not d.get('extends') and gen.spec_of(d) != 'a:1']
    return [g for g in (a1, ext + plain, later) if g]


def shared_oracle(case):
    global _current_db
    import wn
    u = case['universe']
    d = env.new_dir('c01s')
    _current_db = env.fresh_db()
    resources = []
    for i, group in enumerate(_shared_groups(case)):
        res = {'lmf_version': u['lmf_version'], 'lexicons': group}
        resources.append(res)
        wn.add(xmlw.write(res, d / f'l{i}.xml', case['style'] if i % 2 == 0 else None),
               progress_handler=None)
    out: list[Disc] = []
    _check_db(resources, out)
    return out


def _shared_classify(case):
    docs = case['universe']['lexicons']
    tags = gen.resource_tags({'lmf_version': case['universe']['lmf_version'], 'lexicons': docs})
    ids = {}
    for dd in docs:
        for e in dd.get('entries', []):
            if not e.get('external'):
                ids.setdefault(e['id'], set()).add(gen.spec_of(dd))
    shared = any(len(v) > 1 for v in ids.values())
    if shared:
        tags.append('ids-shared-between-lexicons')
    if any(len(g) > 1 and g[0].get('extends') for g in _shared_groups(case)):
        tags.append('extension-then-plain-lexicon-in-one-resource')
    return shared and 'entry' in tags and 'synset' in tags, tags


# ---------------------------------------------------------------------------
# the content reported for a lexicon does not depend on what happened to the database before

@st.composite
def _history_cases(draw):
    prof = gen.Profile(max_entries=3, max_synsets=3)
    # the earlier lexicons use other ILIs: the shared ILI inventory (which keeps the first
    # ILIDefinition it saw, also after a removal) is not part of a lexicon's content
    a = draw(gen.resources(gen.Profile(max_entries=3, max_synsets=3, ili_pool=('j1', 'j2')),
                           max_lexicons=2, extensions=False))
    b = draw(gen.resources(prof, max_lexicons=2))
    ren = {lx['id']: 'h' + lx['id'] for lx in b['lexicons']}
    for lx in b['lexicons']:
        lx['id'] = ren[lx['id']]
        if lx.get('extends'):
            lx['extends']['id'] = ren.get(lx['extends']['id'], lx['extends']['id'])
    pool = ['add_a', 'add_bad', 'remove_a', 'reopen', 'add_bad_mem']
    ops = ['add_a', draw(st.sampled_from(['add_bad', 'add_bad_mem']))] + \
        draw(st.lists(st.sampled_from(pool), max_size=2)) + \
        draw(st.sampled_from([['remove_a'], ['remove_a'], []])) + \
        draw(st.lists(st.sampled_from(pool), max_size=2))
    return {'before': a, 'resource': b, 'ops': ops, 'pos': draw(st.integers(0, 50)),
            'style': draw(xmlw.styles())}


def history_oracle(case):
    """add / failing add / remove of other lexicons first; then the resource under test."""
    global _current_db
    import sqlite3
    import wn
    from .c06 import corrupt, corruptions
    a, b = case['before'], case['resource']
    d = env.new_dir('c01h')
    _current_db = env.fresh_db()
    fa = xmlw.write(a, d / 'a.xml', None)
    cands = [c for c in corruptions(a) if c[0] in ('sense-synset', 'synset-relation-target',
                                                    'sense-relation-target')]
    for i, op in enumerate(case['ops']):
        if op == 'add_a':
            wn.add(fa, progress_handler=None)
        elif op in ('add_bad', 'add_bad_mem') and cands:
            kind, pos = cands[(case['pos'] + i) % len(cands)]
            bad = corrupt(a, kind, pos)
            for lx in bad['lexicons']:
                lx['id'] = 'bad' + lx['id']     # not installed yet, so it is really inserted
            try:
                if op == 'add_bad':
                    wn.add(xmlw.write(bad, d / f'bad{i}.xml', None), progress_handler=None)
                else:
                    wn.add_lexical_resource(bad, progress_handler=None)
            except (wn.Error, sqlite3.Error):
                pass
        elif op == 'remove_a':
            for lx in wn.lexicons():
                wn.remove(lx.specifier(), progress_handler=None)
        elif op == 'reopen':
            _current_db.reopen()
    for lx in wn.lexicons():
        wn.remove(lx.specifier(), progress_handler=None)
    f = xmlw.write(b, d / 'b.xml', case['style'])
    wn.add(f, progress_handler=None)
    wn.add(f, progress_handler=None)
    out: list[Disc] = []
    _check_db(b, out)
    return out


def _history_classify(case):
    tags = gen.resource_tags(case['resource'])
    ops = case['ops']
    for o in set(ops):
        tags.append('history-op:' + o)
    failed_then_removed = any(o.startswith('add_bad') for o in ops) and 'remove_a' in ops \
        and 'add_a' in ops
    if failed_then_removed:
        tags.append('history:failed-add-then-removal')
    return failed_then_removed and 'entry' in tags, tags


# ---------------------------------------------------------------------------
# batch-boundary family

KINDS = ['synsets', 'entries', 'sense_relations']
SIZES = [999, 1000, 1001, 2000, 2001]


def build_batch_doc(kind: str, n: int, version: str = '1.1') -> dict:
    lex = {'id': 'big', 'version': '1', 'label': 'batch', 'language': 'en',
           'email': 'e', 'license': 'l', 'meta': None}
    v11 = version != '1.0'
    if kind == 'synsets':
        synsets = []
        for i in range(n):
            ss = {'id': f'big-ss{i}', 'ili': f'i{i}' if i % 3 else '', 'partOfSpeech': 'n',
                  'meta': {'note': f'm{i}'} if i % 2 else None,
                  'definitions': [{'text': f'def {i}', 'meta': None}],
                  'examples': [{'text': f'ex {i}', 'meta': None}],
                  'relations': [{'target': f'big-ss{(i + 1) % n}', 'relType': 'hypernym',
                                 'meta': None}]}
            synsets.append(ss)
        entries = [{'id': f'big-e{i}', 'meta': None,
                    'lemma': {'writtenForm': f'w{i}', 'partOfSpeech': 'n'},
                    'senses': [{'id': f'big-s{i}', 'synset': f'big-ss{i * (n - 1)}',
                                'meta': None}]} for i in range(2)]
    elif kind == 'entries':
        synsets = [{'id': f'big-ss{i}', 'ili': '', 'partOfSpeech': 'n', 'meta': None}
                   for i in range(3)]
        entries = []
        for i in range(n):
            lemma = {'writtenForm': f'w{i}', 'partOfSpeech': 'nv'[i % 2],
                     'tags': [{'text': f't{i}', 'category': 'c'}]}
            form = {'writtenForm': f'w{i}s', 'tags': [{'text': f'ft{i}', 'category': 'c'}]}
            if v11:
                lemma['pronunciations'] = [{'text': f'p{i}'}]
                form['id'] = f'big-f{i}'
            entries.append({'id': f'big-e{i}', 'meta': {'note': f'm{i}'} if i % 2 else None,
                            'lemma': lemma, 'forms': [form],
                            'senses': [{'id': f'big-s{i}', 'synset': f'big-ss{i % 3}',
                                        'meta': None,
                                        'examples': [{'text': f'ex {i}', 'meta': None}],
                                        'counts': [{'value': i, 'meta': None}]}]})
    elif kind == 'sense_relations':
        synsets = [{'id': f'big-ss{i}', 'ili': '', 'partOfSpeech': 'n', 'meta': None}
                   for i in range(2)]
        senses = [{'id': f'big-s{i}', 'synset': f'big-ss{i % 2}', 'meta': None, 'relations': []}
                  for i in range(4)]
        # n sense->sense relations and n sense->synset relations, all distinct
        for i in range(n):
            senses[i % 4]['relations'].append(
                {'target': f'big-s{(i // 4) % 4}', 'relType': 'other',
                 'meta': {'type': f'k{i}'}})
            senses[(i + 1) % 4]['relations'].append(
                {'target': f'big-ss{i % 2}', 'relType': 'other', 'meta': {'type': f'k{i}'}})
        entries = [{'id': f'big-e{i}', 'meta': None,
                    'lemma': {'writtenForm': f'w{i}', 'partOfSpeech': 'n'},
                    'senses': senses[2 * i:2 * i + 2]} for i in range(2)]
    elif kind == 'members':
        # one synset with n members whose declared order is not the document order of the entries
        # (1.1+; and a small second synset as control)
        version = '1.1' if version == '1.0' else version
        entries = [{'id': f'big-e{i}', 'meta': None,
                    'lemma': {'writtenForm': f'w{i}', 'partOfSpeech': 'n'},
                    'senses': [{'id': f'big-s{i}', 'synset': 'big-ss0' if i >= 3 else 'big-ss1',
                                'meta': None}]} for i in range(n + 3)]
        big = [f'big-s{i}' for i in range(3, n + 3)]
        order = big[1::2] + big[0::2][::-1]
        synsets = [{'id': 'big-ss0', 'ili': '', 'partOfSpeech': 'n', 'meta': None,
                    'members': order},
                   {'id': 'big-ss1', 'ili': '', 'partOfSpeech': 'n', 'meta': None,
                    'members': ['big-s2', 'big-s0', 'big-s1']}]
    elif kind == 'senses':
        # n senses in entries of three: some entry's senses straddle every multiple of the batch
        synsets = [{'id': f'big-ss{i}', 'ili': '', 'partOfSpeech': 'n', 'meta': None}
                   for i in range(3)]
        entries = []
        for i in range((n + 2) // 3):
            entries.append({'id': f'big-e{i}', 'meta': None,
                            'lemma': {'writtenForm': f'w{i}', 'partOfSpeech': 'n'},
                            'senses': [{'id': f'big-s{i}.{j}', 'synset': f'big-ss{(i + j) % 3}',
                                        'meta': None} for j in range(3)]})
    else:
        raise env.HarnessError(kind)
    lex['entries'] = entries
    lex['synsets'] = synsets
    return {'lmf_version': version, 'lexicons': [lex]}


def batch_oracle(case):
    res = build_batch_doc(case['kind'], case['n'], case.get('version', '1.1'))
    return oracle({'resource': res, 'style': None})


def _batch_enum(tier, shard, nshards):
    combos = [(k, n) for k in KINDS for n in SIZES] + [('senses', n) for n in SIZES] \
        + [('members', n) for n in (126, 127, 128, 129, 140, 300)]
    if tier == 'quick':
        combos = [('entries', 1001), ('synsets', 1001), ('sense_relations', 1001),
                  ('entries', 2001), ('members', 129), ('members', 300), ('senses', 1001),
                  ('senses', 2001)]
    for i, (k, n) in enumerate(combos):
        if i % nshards == shard:
            yield {'kind': k, 'n': n, 'version': '1.1' if i % 2 == 0 else '1.0'}


def _batch_classify(case):
    return True, [f'batch:{case["kind"]}:{case["n"]}']


def _sample(case):
    r = case['resource']
    return {'lmf_version': r['lmf_version'], 'style': case['style'],
            'lexicons': [{'spec': lx['id'] + ':' + lx['version'],
                          'extends': lx.get('extends'),
                          'entries': len(lx.get('entries', [])),
                          'synsets': len(lx.get('synsets', [])),
                          'first_entry': (lx.get('entries') or [None])[0]}
                         for lx in r['lexicons']]}


SUBS = [
    Sub('content', oracle, _classify, strategy=lambda tier: _cases(),
        budget={'quick': 60, 'thorough': 400}, sample=_sample,
        fingerprint=lambda c: fingerprint(c['resource'])),
    Sub('content-extensions', oracle, _classify,
        strategy=lambda tier: _cases(force_extension=True),
        budget={'quick': 40, 'thorough': 300}, sample=_sample,
        fingerprint=lambda c: fingerprint(c['resource']),
        require_tags=('extension', 'external-entry', 'external-synset')),
    Sub('content-shared-ids', shared_oracle, _shared_classify,
        strategy=lambda tier: _shared_cases(),
        budget={'quick': 40, 'thorough': 300},
        sample=lambda c: {'lexicons': [gen.spec_of(x) for x in c['universe']['lexicons']]},
        fingerprint=lambda c: fingerprint(c['universe']),
        require_tags=('ids-shared-between-lexicons',
                      'extension-then-plain-lexicon-in-one-resource')),
    Sub('content-after-history', history_oracle, _history_classify,
        strategy=lambda tier: _history_cases(), budget={'quick': 25, 'thorough': 250},
        sample=lambda c: {'ops': c['ops'],
                          'before': [gen.spec_of(x) for x in c['before']['lexicons']],
                          'resource': [gen.spec_of(x) for x in c['resource']['lexicons']]},
        fingerprint=lambda c: fingerprint([c['before'], c['resource'], c['ops']]),
        require_tags=('history:failed-add-then-removal',)),
    Sub('batch-boundary', batch_oracle, _batch_classify, enumerate=_batch_enum,
        exhaustive_note='documents with exactly 999..2001 elements of one kind '
                        '(synsets / entries / sense relations / senses in entries of three), '
                        'and one synset with 126..300 members in a declared order',
        purge_every=1),
]
