"""C03 - Exporting a database and re-importing it preserves the lexicons."""

from __future__ import annotations

import copy
import json

from hypothesis import strategies as st

from .. import dumps, env, gen, observe, xmlw
from ..canon import canon, diff, fingerprint, project
from ..harness import Disc, Sub

PROPERTY = 'C03'
LEVEL = 'exploration'
RULE = ('Hypothesis draws 1-2 non-extension lexicons (ids prefixed by the lexicon id, so the '
        'documented unique-identifier precondition holds) at a source LMF version, an export '
        'version, and bystanders that are installed but not exported: an unrelated lexicon re-using '
        'the same entity ids and an extension of the first exported lexicon (adding senses, '
        'relations, examples, tags to its entities). Oracle (a): the exported file, loaded with '
        'lmf.load, equals the version projection of the model (entries/synsets as id-keyed maps, '
        'attachments as multisets, relations as sets, form and sense order kept, member order '
        'consistent with the declared one). Oracle (b): adding the exported file to an empty '
        'database gives the same per-lexicon public-API observation and the same logical table '
        'dump as the original database restricted to the exported lexicons. Non-trivial: a frame '
        'linked to a sense, a proposed ILI, example/count metadata, a definition with sourceSense, '
        'a pronunciation or a Requires; distinct by (model, source version, export version).')
ASSUMPTIONS = [
    'sense-frame links must survive iff the export version is 1.0 or the frame has an id '
    '(id-less frames cannot be referenced by subcat); frame rows survive iff >=1.1 or linked',
    'an ILIDefinition on a synset with a real or absent ILI is not part of the lexicon content '
    '(it is stored, first come first served, in the shared ILI inventory)',
    'exact duplicates of a relation (same type, target, metadata) count once',
    'synset member order is compared only as far as the source declares it',
]

_NT = {'subcat', 'frames:entry', 'proposed-ili', 'meta:example', 'meta:count',
       'definition-sourceSense', 'pronunciation', 'requires'}


@st.composite
def _cases(draw):
    v0 = draw(st.sampled_from(gen.VERSIONS))
    res = draw(gen.resources(gen.FRAMES_PLUS, max_lexicons=2, extensions=False, version=v0))
    v = draw(st.sampled_from(gen.VERSIONS))
    bystanders = []
    if draw(st.booleans()):
        b = gen._B(draw, gen.FRAMES_PLUS, '1.1')
        bystanders.append({'lmf_version': '1.1',
                           'lexicons': [gen.draw_extension(b, 'lx', '1', res['lexicons'][0])]})
    if draw(st.booleans()):
        other = copy.deepcopy(res['lexicons'][0])
        other['id'] = 'lu'
        other['label'] = 'unrelated'
        bystanders.append({'lmf_version': v0, 'lexicons': [other]})
    return {'resource': res, 'export_version': v, 'bystanders': bystanders,
            'style': draw(xmlw.styles())}


def _classify(case):
    tags = gen.resource_tags(case['resource'])
    tags += [f'export-{case["export_version"]}']
    for b in case['bystanders']:
        tags.append('bystander:' + ('extension' if b['lexicons'][0].get('extends')
                                    else 'same-ids'))
    return bool(_NT & set(tags)), tags


def _k(x):
    return json.dumps(x, sort_keys=True, default=str)


def _ms(xs):
    return sorted(xs, key=_k)


def _relset(rels):
    out = []
    for r in rels:
        if r not in out:
            out.append(r)
    return _ms(out)


def normal(lex: dict, v: str, model_side: bool, sense_frames=None) -> dict:
    """Comparable rendering of one (canonicalised) lexicon at export version v."""
    v10 = v == '1.0'
    out = {k: lex.get(k) for k in ('id', 'version', 'label', 'language', 'email', 'license',
                                   'url', 'citation', 'logo', 'meta')}
    out['requires'] = _ms(lex.get('requires', []))
    frames_by_id = {f.get('id'): f['subcategorizationFrame']
                    for f in lex.get('frames', []) if f.get('id')}
    linked = set()
    entries = {}
    for e in lex.get('entries', []):
        senses = []
        links = []    # (sense id, frame string)
        for s in e.get('senses', []):
            d = {k: s.get(k) for k in ('id', 'synset', 'lexicalized', 'adjposition', 'meta')}
            d['relations'] = _relset(s.get('relations', []))
            d['examples'] = _ms(s.get('examples', []))
            d['counts'] = _ms(s.get('counts', []))
            senses.append(d)
            for fid in s.get('subcat', []):
                if fid in frames_by_id:
                    links.append((s['id'], frames_by_id[fid]))
                    linked.add(frames_by_id[fid])
        own = {s['id'] for s in e.get('senses', [])}
        for fr in lex.get('frames', []):        # lexicon-level frame naming its senses itself
            for sid in fr.get('senses', []):
                if sid in own:
                    links.append((sid, fr['subcategorizationFrame']))
                    linked.add(fr['subcategorizationFrame'])
        sids = [s['id'] for s in e.get('senses', [])]
        for fr in e.get('frames', []):
            for sid in (fr.get('senses') or sids):
                links.append((sid, fr['subcategorizationFrame']))
                linked.add(fr['subcategorizationFrame'])
        forms = [dict(e['lemma'])] + [dict(f) for f in e.get('forms', [])]
        for f in forms:
            for key in ('tags', 'pronunciations'):
                f[key] = {'__multiset__': f.get(key, [])} if model_side else f.get(key, [])
        entries[e['id']] = {'meta': e.get('meta'), 'forms': forms, 'senses': senses,
                            'frame_links': _ms(sorted(set(links)))}
    out['entries'] = entries
    synsets = {}
    for ss in lex.get('synsets', []):
        d = {k: ss.get(k) for k in ('ili', 'partOfSpeech', 'lexicalized', 'lexfile', 'meta')}
        if ss.get('ili') == 'in':
            d['ili_definition'] = ss.get('ili_definition')
        d['definitions'] = _ms(ss.get('definitions', []))
        d['relations'] = _relset(ss.get('relations', []))
        d['examples'] = _ms(ss.get('examples', []))
        d['members'] = ss.get('members')
        synsets[ss['id']] = d
    out['synsets'] = synsets
    out['frames'] = _ms([[f.get('id'), f['subcategorizationFrame']]
                         for f in lex.get('frames', [])])
    out['_linked'] = sorted(linked)
    return out


def compare_export(model_lex: dict, got_lex: dict, v0: str, v: str, out: list, label: str):
    if v != '1.3':
        from ..canon import _normalise_preserved
        model_lex = copy.deepcopy(model_lex)
        _normalise_preserved(model_lex)
    m = normal(canon(model_lex), v0, True)
    g = normal(canon(got_lex), v, False)
    v10 = v == '1.0'
    src10 = v0 == '1.0'
    # --- frames and links: what must survive
    id_of = {f['subcategorizationFrame']: f.get('id') for f in
             canon(model_lex).get('frames', [])}
    for eid, e in m['entries'].items():
        must = [l for l in e['frame_links'] if v10 or id_of.get(l[1])]
        ge = g['entries'].get(eid)
        if ge is not None:
            gl = ge['frame_links']
            missing = [l for l in must if l not in gl]
            extra = [l for l in gl if l not in e['frame_links']]
            if missing or extra:
                out.append(Disc('export:sense-frame-links', f'{label}/entries/{eid}',
                                must, gl))
            ge.pop('frame_links')
        e.pop('frame_links')
    mf = m.pop('frames')
    gf = g.pop('frames')
    linked = m.pop('_linked')
    g.pop('_linked')
    if v10:
        pass        # 1.0 has no lexicon-level frames; links were checked above
    else:
        # frames referenced by a sense must be there; unreferenced ones may be (the statement
        # lists sense-frame links, not free-standing frames); nothing else may appear
        allf = [[fid, fs] for fid, fs in mf] + \
               [[None, fs] for fs in linked if fs not in [x[1] for x in mf]]
        must = [x for x in allf if x[1] in linked]
        if any(x not in gf for x in must) or any(x not in allf for x in gf):
            out.append(Disc('export:frames', f'{label}/frames', {'must': must, 'may': allf}, gf))
    # --- members: declared order is a prefix-order constraint
    for sid, ss in m['synsets'].items():
        gs = g['synsets'].get(sid)
        decl = ss.pop('members') or []
        if gs is None:
            continue
        gm = gs.pop('members') or []
        if not v10:
            allm = sorted(s['id'] for e in m['entries'].values() for s in e['senses']
                          if s['synset'] == sid)
            if sorted(gm) != allm or gm[:len(decl)] != decl:
                out.append(Disc('export:members', f'{label}/synsets/{sid}',
                                {'declared_first': decl, 'all': allm}, gm))
        elif gm:
            out.append(Disc('export:members', f'{label}/synsets/{sid}', None, gm))
    # --- everything else, after projecting the model to v
    pm = project({'lmf_version': v0, 'lexicons': [copy.deepcopy(model_lex)]}, v)['lexicons'][0]
    m2 = normal(canon(pm), v, True)
    for k in ('frames', '_linked'):
        m2.pop(k)
    for e in m2['entries'].values():
        e.pop('frame_links')
    for ss in m2['synsets'].values():
        ss.pop('members')
    for p, e, gg in diff(m2, g, limit=10):
        out.append(Disc('export:content', f'{label}{p}', e, gg))


def _ws(c):
    from ..canon import xml_ws_norm
    return xml_ws_norm(c) if isinstance(c, str) else c


def _ws_texts(o, inside=False):
    """White-space normalise every string below a 'definition' / 'examples' key."""
    if isinstance(o, dict):
        out = {}
        for k, x in o.items():
            if k == 'definition' and isinstance(x, str):
                out[k] = _ws(x) or None          # a blank definition reads as no definition
            else:
                out[k] = _ws_texts(x, inside or k in ('definition', 'definitions', 'examples'))
        return out
    if isinstance(o, list):
        return [_ws_texts(x, inside) for x in o]
    return _ws(o) if inside else o


def _mask_logical(d: dict, v: str, frame_has_id: dict) -> dict:
    d = {t: [list(r) for r in rows] for t, rows in d.items()}
    # synset_rank: explicit in the re-import, default in the original
    for r in d.get('senses', []):
        r[7] = None
    linked = {(r[0], r[1]) for r in d.get('syntactic_behaviour_senses', [])}
    if v == '1.0':
        d['syntactic_behaviours'] = [[r[0], None, r[2]] for r in d.get('syntactic_behaviours', [])
                                     if (r[0], r[2]) in linked]
        for t in ('pronunciations',):
            d[t] = []
        for r in d.get('forms', []):
            r[3] = None
        for r in d.get('synsets', []):
            r[5] = None
        for r in d.get('lexicons', []):
            r[7] = None
        d['lexicon_dependencies'] = []
    else:
        d['syntactic_behaviour_senses'] = [r for r in d.get('syntactic_behaviour_senses', [])
                                           if frame_has_id.get((r[0], r[1]))]
        linked = {(r[0], r[1]) for r in d['syntactic_behaviour_senses']}
        d['syntactic_behaviours'] = [r for r in d.get('syntactic_behaviours', [])
                                     if (r[0], r[2]) in linked]
    if v != '1.3':
        # only 1.3 can say xml:space="preserve": elsewhere texts come back white-space normalised
        for t in ('definitions', 'synset_examples', 'sense_examples', 'proposed_ilis', 'ilis'):
            d[t] = [[_ws(c) for c in r] for r in d.get(t, [])]
    for t in d:
        rows = [[None if c == '' else c for c in r] for r in d[t]]
        if t.endswith('_relations'):
            uniq = []
            for r in rows:
                if r not in uniq:
                    uniq.append(r)
            rows = uniq
        d[t] = sorted(rows, key=_k)
    return d


_UNORDERED = ('examples', 'counts', 'tags', 'pronunciations', 'frames', 'get_related',
              'related_synsets', 'hypernyms', 'hyponyms', 'senses', 'words', 'lemmas', 'synsets')


def _loose(o, strict_synsets: set, path=''):
    """Observation with lists whose order is not promised turned into multisets."""
    if isinstance(o, dict):
        out = {}
        for k, v in o.items():
            if isinstance(v, list) and k in _UNORDERED:
                # word.senses / word.synsets keep entry order
                if k in ('senses', 'synsets') and path.startswith('/words/'):
                    out[k] = v
                elif k in ('senses', 'words', 'lemmas') and path.startswith('/synsets/') \
                        and path.split('/')[2] in strict_synsets:
                    out[k] = v
                else:
                    out[k] = {'__multiset__': v}
            elif k == 'relations' and isinstance(v, dict):
                out[k] = {n: {'__multiset__': t} for n, t in v.items()}
            else:
                out[k] = _loose(v, strict_synsets, f'{path}/{k}')
        return out
    if isinstance(o, list):
        return [_loose(v, strict_synsets, path) for v in o]
    return o


_PRIMER = {'lmf_version': '1.1', 'lexicons': [{
    'id': 'zz-primer', 'version': '1', 'label': 'primer', 'language': 'en', 'email': 'e',
    'license': 'l', 'meta': None,
    'entries': [{'id': 'zz-primer-e', 'meta': None,
                 'lemma': {'writtenForm': 'primer', 'partOfSpeech': 'n'},
                 'senses': [{'id': 'zz-primer-s', 'synset': 'zz-primer-ss', 'meta': None,
                             'subcat': ['zz-primer-f']}]}],
    'synsets': [{'id': 'zz-primer-ss', 'ili': '', 'partOfSpeech': 'n', 'meta': None,
                 'lexfile': 'noun.primer',
                 'definitions': [{'text': 'primer', 'meta': None}]}],
    'frames': [{'id': 'zz-primer-f', 'subcategorizationFrame': 'Primer ----s'}]}]}


def oracle(case):
    import wn
    import wn.lmf
    res = case['resource']
    v0, v = res['lmf_version'], case['export_version']
    work = env.new_dir('c03')
    out: list[Disc] = []
    db1 = env.fresh_db()
    # the database has been in use before: another lexicon is installed and has been queried
    # (its lexfile, its frames) in this process before the resource arrives
    wn.add_lexical_resource(_PRIMER, progress_handler=None)
    _pw = wn.Wordnet('zz-primer:1')
    [(x.lexfile(), x.definition()) for x in _pw.synsets()]
    [x.frames() for x in _pw.senses()]
    wn.add(xmlw.write(res, work / 'src.xml', case['style']), progress_handler=None)
    for i, b in enumerate(case['bystanders']):
        wn.add(xmlw.write(b, work / f'by{i}.xml', None), progress_handler=None)
    specs = [gen.spec_of(lx) for lx in res['lexicons']]
    lexobjs = [wn.lexicons(lexicon=s)[0] for s in specs]
    f = work / 'export.xml'
    wn.export(lexobjs, f, version=v)
    loaded = wn.lmf.load(f, progress_handler=None)
    if loaded['lmf_version'] != v:
        out.append(Disc('export:version', '', v, loaded['lmf_version']))
    got = {gen.spec_of(lx): lx for lx in loaded['lexicons']}
    if sorted(got) != sorted(specs):
        out.append(Disc('export:lexicons', '', sorted(specs), sorted(got)))
        return out
    for lx in res['lexicons']:
        compare_export(lx, got[gen.spec_of(lx)], v0, v, out, f'/{gen.spec_of(lx)}')
    if out:
        return out[:12]
    # (b) re-import into an empty database
    api1 = {s: observe.observe_selection(s, expand='') for s in specs}
    log1 = dumps.logical_for(dumps.logical_dump(db1.file), set(specs))
    db2 = env.fresh_db()
    wn.add(f, progress_handler=None)
    api2 = {s: observe.observe_selection(s, expand='') for s in specs}
    log2 = dumps.logical_for(dumps.logical_dump(db2.file), set(specs))
    frame_has_id = {}
    strict = set()
    for lx in res['lexicons']:
        spec = gen.spec_of(lx)
        for fr in lx.get('frames', []):
            frame_has_id[(spec, fr['subcategorizationFrame'])] = bool(fr.get('id'))
        for e in lx.get('entries', []):
            for fr in e.get('frames', []):
                frame_has_id.setdefault((spec, fr['subcategorizationFrame']), False)
        nsenses = {}
        for e in lx.get('entries', []):
            for s in e.get('senses', []):
                nsenses[s['synset']] = nsenses.get(s['synset'], 0) + 1
        for ss in lx.get('synsets', []):
            if len(ss.get('members') or []) == nsenses.get(ss['id'], 0) and v != '1.0':
                strict.add(f'{spec}|{ss["id"]}')
    m1, m2 = _mask_logical(log1, v, frame_has_id), _mask_logical(log2, v, frame_has_id)
    for p, e, g in diff(m1, m2, limit=8):
        out.append(Disc('reimport:tables', p, e, g))
    if not out:
        a1 = _mask_api(api1, v, frame_has_id)
        a2 = _mask_api(api2, v, frame_has_id)
        for p, e, g in diff(_loose(a1, strict), a2, limit=8):
            out.append(Disc('reimport:api', p, e, g))
    return out[:12]


def _mask_api(api: dict, v: str, frame_has_id: dict) -> dict:
    api = copy.deepcopy(api)
    for spec, o in api.items():
        o.pop('warnings', None)
        for rec in o.get('lexicons', {}).values():
            # links to bystanders follow what is installed (C05), not the lexicon content
            rec.pop('extensions', None)
            rec.pop('extensions_all', None)
        for rec in o.get('synsets', {}).values():
            # ILI definitions live in the shared inventory, not in the lexicon
            if isinstance(rec.get('ili'), dict) and rec['ili'].get('status') != 'proposed':
                rec['ili']['definition'] = None
                rec['ili']['meta'] = {}
            if v == '1.0':
                rec['lexfile'] = None
        for rec in o.get('ilis', []):
            if rec.get('status') != 'proposed':
                rec['definition'] = None
                rec['meta'] = {}
        o['ilis'] = sorted(o.get('ilis', []), key=_k)
        for rec in o.get('senses', {}).values():
            if v != '1.0':
                rec['frames'] = [f for f in rec['frames'] if frame_has_id.get((spec, f))]
        if v == '1.0':
            for rec in o.get('lexicons', {}).values():
                rec['logo'] = None
                rec['requires'] = {}
            for rec in o.get('words', {}).values():
                for f in [rec['lemma']] + rec['forms']:
                    f['pronunciations'] = []
                    f['id'] = None
    if v != '1.3':
        api = _ws_texts(api)
        for o in api.values():
            o['ilis'] = sorted(o.get('ilis', []), key=_k)
    return api


def _sample(case):
    r = case['resource']
    return {'source_version': r['lmf_version'], 'export_version': case['export_version'],
            'bystanders': [[gen.spec_of(lx) + (' ext' if lx.get('extends') else '')
                            for lx in b['lexicons']] for b in case['bystanders']],
            'lexicons': [{'spec': gen.spec_of(lx), 'entries': len(lx.get('entries', [])),
                          'synsets': len(lx.get('synsets', [])),
                          'frames': lx.get('frames'),
                          'first_entry': (lx.get('entries') or [None])[0]}
                         for lx in r['lexicons']]}


def _large_enum(tier, shard, nshards):
    """Lexicons that do not fit one insert batch (wn adds in batches of 1000 rows): the order of
    the senses of an entry and of the members of a synset has to survive in them too."""
    combos = [('senses', 1001, '1.0'), ('members', 300, '1.1')]
    if tier != 'quick':
        combos += [('senses', 2001, '1.3'), ('entries', 1001, '1.1'), ('synsets', 1001, '1.0'),
                   ('sense_relations', 1001, '1.3')]
    for i, (kind, n, v) in enumerate(combos):
        if i % nshards == shard:
            yield {'large': [kind, n], 'export_version': v}


def _large_oracle(case):
    from . import c01
    kind, n = case['large']
    res = c01.build_batch_doc(kind, n, '1.1' if kind == 'members' else '1.0')
    return oracle({'resource': res, 'export_version': case['export_version'], 'bystanders': [],
                   'style': None})


SUBS = [
    Sub('export-reimport', oracle, _classify, strategy=lambda tier: _cases(),
        budget={'quick': 100, 'thorough': 900}, sample=_sample,
        fingerprint=lambda c: fingerprint([c['resource'], c['export_version']]),
        require_tags=('bystander:extension', 'bystander:same-ids', 'export-1.0', 'export-1.3')),
    Sub('large-lexicon', _large_oracle,
        lambda case: (True, [f'large:{case["large"][0]}:{case["large"][1]}',
                             'export-' + case['export_version']]),
        enumerate=_large_enum, purge_every=1,
        exhaustive_note='constructed lexicons with more rows of one kind than one insert batch '
                        '(1001 senses in entries of three, a synset with 300 members; thorough: '
                        'further kinds)',
        sample=lambda c: c),
]
