"""C10 - Navigation between words, senses and synsets is referentially faithful."""

from __future__ import annotations

from hypothesis import strategies as st

from .. import env, gen, observe, xmlw
from ..canon import diff, fingerprint
from ..harness import Disc, Sub
from ..observe import call, key_of, _raised
from ..refdb import RefDB

PROPERTY = 'C10'
LEVEL = 'exploration'
RULE = ('Hypothesis draws a universe of related lexicons (two versions of one id sharing every '
        'entry/sense/synset id, an unrelated lexicon with the same ids and ILIs, extensions whose '
        'senses attach to base entries and base synsets, several synsets per ILI, absent and proposed '
        'ILIs) and a Wordnet selection (default mode, one lexicon, several lexicons incl. both '
        'versions, lang). Every entity is keyed (lexicon, id) by the reference database. Oracle: '
        'sense.word()/synset() have the key of the declaring entry / referenced synset (or raise '
        'because it lies outside the selection); word.senses(), synset.senses() contain the sense; '
        'word.synsets(), synset.words(), synset.lemmas() are the images of the sense lists in order; '
        'for all pairs of reached objects == <=> same key, equal objects hash alike and collapse in '
        'sets; translate(lexicon=T | lang) equals, as a set, the synsets of the targets sharing the '
        'ILI (none for absent/proposed ILI), sense/word translation are its images, and translation '
        'is symmetric. Non-trivial: an id occurs in >= 2 selected lexicons, or an extension sense '
        'hangs off a base entry/synset, or an ILI is carried by >= 2 synsets; distinct by '
        '(universe, selection).')
ASSUMPTIONS = [
    'expand lexicons are switched off (placeholders are the subject of C12)',
    'translation targets are existing lexicons / languages (an unknown target raises wn.Error)',
    'senses of equal rank contributed by different lexicons may come in either order',
]

NAV = {'words': ('senses', 'synsets'), 'senses': ('word', 'synset'),
       'synsets': ('senses', 'words', 'lemmas')}


@st.composite
def _cases(draw):
    u = draw(gen.universes(attachments=False, relations=True, ext_new_forms=True))
    specs = [gen.spec_of(d) for d in u['lexicons']]
    langs = sorted({d['language'] for d in u['lexicons']})
    mode = draw(st.sampled_from(['default', 'one', 'several', 'several', 'lang']))
    sel = {'lexicon': None, 'lang': None}
    if mode == 'one':
        sel['lexicon'] = draw(st.sampled_from(specs))
    elif mode == 'several':
        sel['lexicon'] = ' '.join(draw(st.lists(st.sampled_from(specs),
                                                min_size=min(2, len(specs)),
                                                max_size=4, unique=True)))
    elif mode == 'lang':
        sel['lang'] = draw(st.sampled_from(langs))
    targets = draw(st.lists(st.one_of(
        st.sampled_from(specs).map(lambda s: {'lexicon': s}),
        st.sampled_from(langs).map(lambda l: {'lang': l}),
        st.lists(st.sampled_from(specs), min_size=min(2, len(specs)), max_size=2,
                 unique=True).map(lambda x: {'lexicon': ' '.join(x)}),
        st.just({})), min_size=1, max_size=3))
    # an interlingual index loaded after the lexicons may give their ILIs any status - also
    # 'proposed', which does not make them the proposed ILI of some synset
    index = draw(st.sampled_from([None, None, 'proposed', 'proposed', 'deprecated']))
    return {'universe': u, 'selection': sel, 'targets': targets, 'ili_index_status': index}


def _classify(case):
    docs = case['universe']['lexicons']
    sel = case['selection']
    specs = [gen.spec_of(d) for d in docs]
    if sel['lexicon']:
        S = sel['lexicon'].split()
    elif sel['lang']:
        S = [gen.spec_of(d) for d in docs if d['language'] == sel['lang']]
    else:
        S = specs
    tags = ['mode:' + ('default' if not sel['lexicon'] and not sel['lang'] else
                       'lang' if sel['lang'] else
                       'several' if ' ' in sel['lexicon'] else 'one')]
    ids = {}
    for d in docs:
        if gen.spec_of(d) not in S:
            continue
        for e in d.get('entries', []):
            if not e.get('external'):
                ids.setdefault(e['id'], set()).add(gen.spec_of(d))
    if any(len(v) > 1 for v in ids.values()):
        tags.append('id-in-several-selected-lexicons')
    for d in docs:
        if d.get('extends') and gen.spec_of(d) in S:
            for e in d.get('entries', []):
                if e.get('external') and any(not s.get('external') for s in e.get('senses', [])):
                    tags.append('extension-sense-on-base-entry')
            if any(ss.get('external') for ss in d.get('synsets', [])):
                tags.append('extension-touches-base-synset')
    ilis = {}
    for d in docs:
        for ss in d.get('synsets', []):
            if ss.get('ili') and ss['ili'] != 'in':
                ilis[ss['ili']] = ilis.get(ss['ili'], 0) + 1
    if any(v > 1 for v in ilis.values()):
        tags.append('ili-shared')
    if ilis and case.get('ili_index_status'):
        tags.append('ili-index:' + case['ili_index_status'])
    nt = any(t in tags for t in ('id-in-several-selected-lexicons',
                                 'extension-sense-on-base-entry', 'ili-shared'))
    return nt, sorted(set(tags))


def oracle(case):
    import wn
    u = case['universe']
    env.fresh_db()
    ref = RefDB()
    work = None
    for i, d in enumerate(u['lexicons']):
        r = {'lmf_version': u['lmf_version'], 'lexicons': [d]}
        # alternate the two public install paths, and navigate in default mode between the
        # adds: what a later add contributes must be visible afterwards (nothing about the
        # lexicon families may be remembered from before the add)
        if i % 2:
            if work is None:
                work = env.new_dir('c10')
            wn.add(xmlw.write(r, work / f'l{i}.xml', None), progress_handler=None)
        else:
            wn.add_lexical_resource(r, progress_handler=None)
        ref.add_resource(r)
        w0 = wn.Wordnet(expand='')
        for wd in w0.words():
            for sn in wd.senses():
                call(sn.synset)
        for ss in w0.synsets():
            ss.senses()
    if case.get('ili_index_status'):
        used = sorted({ss['ili'] for d in u['lexicons'] for ss in d.get('synsets', [])
                       if ss.get('ili') and ss['ili'] != 'in'})
        if used:
            if work is None:
                work = env.new_dir('c10')
            (work / 'index.tsv').write_text(
                'ili\tstatus\n' + ''.join(f'{i}\t{case["ili_index_status"]}\n' for i in used),
                encoding='utf-8')
            wn.add(work / 'index.tsv', progress_handler=None)
    sel = case['selection']
    if sel['lexicon']:
        specs = sel['lexicon'].split()
    elif sel['lang']:
        specs = [lx.spec for lx in ref.lexs if lx.doc['language'] == sel['lang']]
    else:
        specs = None
    w, _ = observe.make_wordnet(sel['lexicon'], sel['lang'], '')
    if _raised(w):
        return []
    view = ref.view(specs, expand_specs=[],
                    default_mode=(not sel['lexicon'] and not sel['lang']))
    out: list[Disc] = []

    # 1. navigation keys against the model
    got = observe.observe(w)
    exp = view.expected()
    for kind, fields in NAV.items():
        if sorted(got[kind]) != sorted(exp[kind]):
            out.append(Disc('listing', f'/{kind}', sorted(exp[kind]), sorted(got[kind])))
            continue
        for k in exp[kind]:
            for f in fields:
                for p, e, g in diff(exp[kind][k][f], got[kind][k][f], limit=3):
                    out.append(Disc(f'nav:{kind}.{f}', f'/{kind}/{k}/{f}{p}', e, g))
    if out:
        return out[:12]

    # 2. inverse navigation, images, equality and hashing
    objs = {'w': [], 's': [], 'ss': []}
    for s in w.senses():
        objs['s'].append(s)
        wd = call(s.word)
        if not _raised(wd):
            objs['w'].append(wd)
            if s not in wd.senses():
                out.append(Disc('inverse', f'/senses/{key_of(s)}', 'sense in sense.word().senses()',
                                [key_of(x) for x in wd.senses()]))
        ss = call(s.synset)
        if not _raised(ss):
            objs['ss'].append(ss)
            if s not in ss.senses():
                out.append(Disc('inverse', f'/senses/{key_of(s)}',
                                'sense in sense.synset().senses()',
                                [key_of(x) for x in ss.senses()]))
        objs['s'].extend(s.get_related())
        objs['ss'].extend(s.get_related_synsets())
    for wd in w.words():
        objs['w'].append(wd)
        sl = wd.senses()
        objs['s'].extend(sl)
        img = call(wd.synsets)
        if not _raised(img):
            objs['ss'].extend(img)
            direct = [key_of(call(s.synset)) for s in sl]
            if [key_of(x) for x in img] != direct:
                out.append(Disc('image', f'/words/{key_of(wd)}/synsets', direct,
                                [key_of(x) for x in img]))
    # words reached by different routes report the same forms (an extension in scope may have
    # added some to a base entry)
    by_key: dict = {}
    for wd in list(objs['w']):
        fs = sorted((str(f), f.script or '') for f in wd.forms())
        first = by_key.setdefault(key_of(wd), fs)
        if fs != first:
            out.append(Disc('same-word-different-forms', f'/words/{key_of(wd)}', first, fs,
                            note='Word objects for one entry obtained by different routes'))
            break
    for ss in w.synsets():
        objs['ss'].append(ss)
        sl = ss.senses()
        objs['s'].extend(sl)
        objs['ss'].extend(ss.get_related())
        img = call(ss.words)
        if not _raised(img):
            objs['w'].extend(img)
            direct = [key_of(call(s.word)) for s in sl]
            if [key_of(x) for x in img] != direct:
                out.append(Disc('image', f'/synsets/{key_of(ss)}/words', direct,
                                [key_of(x) for x in img]))
            lem = [str(x.lemma()) for x in img]
            if [str(x) for x in ss.lemmas()] != lem:
                out.append(Disc('image', f'/synsets/{key_of(ss)}/lemmas', lem,
                                [str(x) for x in ss.lemmas()]))
    for kind, lst in objs.items():
        keys = [key_of(x) for x in lst]
        for i, a in enumerate(lst):
            for j, b_ in enumerate(lst):
                same = keys[i] == keys[j]
                if (a == b_) != same or (a != b_) == same:
                    out.append(Disc('equality', f'/{kind}', f'== iff same entity ({same})',
                                    [keys[i], keys[j], a == b_]))
                    break
                if same and hash(a) != hash(b_):
                    out.append(Disc('hash', f'/{kind}', 'equal objects hash alike',
                                    [keys[i], keys[j]]))
                    break
            else:
                continue
            break
        if len(set(lst)) != len(set(map(str, keys))):
            out.append(Disc('set-collapse', f'/{kind}', len(set(map(str, keys))), len(set(lst))))
    # forms: == and != must be each other's negation (two forms of one spelling and different
    # scripts are different forms)
    forms = [f for wd in w.words() for f in wd.forms()]
    for a in forms:
        for b_ in forms:
            if (a == b_) == (a != b_):
                out.append(Disc('equality', '/forms', '(a == b) is not (a != b)',
                                [[str(a), a.script], [str(b_), b_.script], a == b_, a != b_]))
                break
        else:
            continue
        break
    # ILI objects: an existing ILI is identified by its id, a proposed one by its synset
    ilis = []
    listed = call(w.ilis)
    for x in ([] if _raised(listed) else listed):
        if x.id:
            ilis.append((('ili', x.id), x))
    for ss in w.synsets():
        x = call(lambda: ss.ili)
        if x is not None and not _raised(x):
            ilis.append(((('ili', x.id) if x.id else ('proposed', str(key_of(ss)))), x))
    for ka, a in ilis:
        for kb, b_ in ilis:
            same = ka == kb
            if (a == b_) != same:
                out.append(Disc('equality', '/ili', f'== iff same ILI ({same})',
                                [list(ka), list(kb), a == b_]))
                break
            if same and hash(a) != hash(b_):
                out.append(Disc('hash', '/ili', 'equal objects hash alike', [list(ka), list(kb)]))
                break
        else:
            continue
        break
    # different kinds never equal
    if objs['s'] and objs['ss'] and objs['s'][0] == objs['ss'][0]:
        out.append(Disc('equality', '/cross-kind', 'sense != synset', 'equal'))
    if out:
        return out[:12]

    # 3. translation
    all_synsets = [x for L in ref.lexs for x in L.synsets.values()]
    for tgt in case['targets']:
        if 'lexicon' in tgt:
            tspecs = tgt['lexicon'].split()
        elif 'lang' in tgt:
            tspecs = [lx.spec for lx in ref.lexs if lx.doc['language'] == tgt['lang']]
        else:
            tspecs = [lx.spec for lx in ref.lexs]
        kw = dict(tgt)
        for ss in w.synsets():
            rss = ref.get(key_of(ss).split('|')[0]).synsets[ss.id]
            exp_t = sorted(x.key for x in all_synsets
                           if rss.ili is not None and x.ili == rss.ili and x.owner.spec in tspecs)
            got_t = call(lambda: ss.translate(**kw))
            if _raised(got_t):
                out.append(Disc('translate-raises', f'/synsets/{key_of(ss)}', exp_t, got_t,
                                note=str(tgt)))
                continue
            gk = sorted(key_of(x) for x in got_t)
            if gk != exp_t:
                out.append(Disc('translate', f'/synsets/{key_of(ss)}', exp_t, gk, note=str(tgt)))
            # symmetry: b in a.translate(L_b)  <=>  a in b.translate(L_a)
            for b_ in got_t:
                back = call(lambda: b_.translate(lexicon=key_of(ss).split('|')[0]))
                if _raised(back) or key_of(ss) not in [key_of(x) for x in back]:
                    out.append(Disc('translate-asymmetric', f'/synsets/{key_of(ss)}',
                                    f'{key_of(ss)} in {key_of(b_)}.translate(...)',
                                    back if _raised(back) else [key_of(x) for x in back]))
        for s in w.senses():
            ssyn = call(s.synset)
            got_t = call(lambda: s.translate(**kw))
            if _raised(ssyn):
                continue
            img = [key_of(x) for t in ssyn.translate(**kw) for x in t.senses()]
            if _raised(got_t) or sorted(map(str, img)) != sorted(str(key_of(x)) for x in got_t):
                out.append(Disc('sense-translate', f'/senses/{key_of(s)}', img,
                                got_t if _raised(got_t) else [key_of(x) for x in got_t]))
        for wd in w.words():
            got_t = call(lambda: wd.translate(**kw))
            # reference image, computed step by step through the same public API: the words of
            # the translated senses of each sense; any step that leaves the (target) selection
            # raises wn.Error and then the whole mapping cannot be built
            ref_img, broken = [], False
            for s in wd.senses():
                ts = call(lambda: s.translate(**kw))
                if _raised(ts):
                    broken = True
                    break
                ws = [call(t.word) for t in ts]
                if any(_raised(x) for x in ws):
                    broken = True
                    break
                ref_img.append((key_of(s), sorted(str(key_of(x)) for x in ws)))
            if _raised(got_t):
                if not broken:
                    out.append(Disc('word-translate-raises', f'/words/{key_of(wd)}', ref_img,
                                    got_t, note=str(tgt)))
                continue
            if broken:
                out.append(Disc('word-translate', f'/words/{key_of(wd)}', 'wn.Error',
                                {str(key_of(k)): [key_of(x) for x in v]
                                 for k, v in got_t.items()}, note=str(tgt)))
                continue
            got_img = sorted((key_of(k), sorted(str(key_of(x)) for x in v))
                             for k, v in got_t.items())
            if got_img != sorted(ref_img):
                out.append(Disc('word-translate', f'/words/{key_of(wd)}', sorted(ref_img),
                                got_img, note=str(tgt)))
    return out[:12]


def _sample(case):
    return {'selection': case['selection'], 'targets': case['targets'],
            'universe': [{'spec': gen.spec_of(d), 'language': d['language'],
                          'extends': d.get('extends'),
                          'entries': [(e['id'], bool(e.get('external')),
                                       [(s['id'], s.get('synset')) for s in e.get('senses', [])])
                                      for e in d.get('entries', [])],
                          'synsets': [(s['id'], s.get('ili')) for s in d.get('synsets', [])]}
                         for d in case['universe']['lexicons']]}


SUBS = [
    Sub('navigation', oracle, _classify, strategy=lambda tier: _cases(),
        budget={'quick': 100, 'thorough': 2000}, sample=_sample,
        fingerprint=lambda c: fingerprint([c['universe'], c['selection']]),
        require_tags=('id-in-several-selected-lexicons', 'extension-sense-on-base-entry',
                      'ili-shared', 'mode:default', 'mode:several', 'ili-index:proposed')),
]
