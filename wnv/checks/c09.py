"""C09 - Word-form search follows the documented exact/normalized/lemmatized procedure."""

from __future__ import annotations

import unicodedata

from hypothesis import strategies as st

from .. import env, gen, observe
from ..canon import fingerprint
from ..harness import Disc, Sub
from ..observe import key_of
from ..refdb import RefDB

PROPERTY = 'C09'
LEVEL = 'exploration'
POOL = ('résumé', 'resume', 'Resume', 'RESUME', 'résumé', 'soñar', 'sonar',
        'San José', 'san jose', 'San Jose', 'ハラペーニョ',
        'ﬁre', 'fire', 'İstanbul', 'istanbul', 'straße', 'strasse', 'wolves', 'wolf',
        'axes', 'ax', 'axe', 'Axes', 'Wolves', 'lemmata', 'lemma', 'x')
RULE = ('Hypothesis draws 1-2 lexicons (optionally an extension) whose written forms come from a '
        'pool of confusable strings (case, NFC/NFD, diacritics, ligature, multi-word, non-Latin, '
        'inflection-like), so that several stored forms collapse to one normalized form and forms '
        'are shared across words and parts of speech; a selection; and per case two configurations '
        '(normalizer on/off x search_all_forms on/off x lemmatizer none/custom table/Morphy '
        'uninitialised/initialised) with ~16 queries each (stored forms, upper/lower/NFD/'
        'accent-stripped variants, near misses) x pos. Oracle: the documented procedure executed on '
        'the reference database with an independently written normaliser; words/senses/synsets '
        'compared as sets, no duplicates allowed; module-level wn.words/senses/synsets must agree '
        'with Wordnet(...). Non-trivial classes (exact hit, normalized-column hit, back-off hit, '
        'miss with near match) are tagged and each must occur; distinct by (lexicons, selection, '
        'configuration, queries).')
ASSUMPTIONS = [
    'the lemmatizer is treated as a black box: the candidates are what the given callable returns',
    'results are compared as sets (order is not part of the statement); duplicates are violations',
]

POS = [None, 'n', 'v', 'a', 's', 'r', 'x']


def norm(s: str) -> str:
    return ''.join(c for c in unicodedata.normalize('NFKD', s.lower())
                   if not unicodedata.combining(c))


def _variants(f: str) -> list[str]:
    return [f, f.upper(), f.lower(), unicodedata.normalize('NFD', f),
            unicodedata.normalize('NFC', f), norm(f), f + 's', f[:-1] or 'q', f.title()]


@st.composite
def _cases(draw):
    prof = gen.Profile(versions=('1.1', '1.3'), special=False, max_entries=5, max_synsets=3,
                       max_senses=2, max_forms=3, meta=False, frames=False, attachments=False,
                       relations=False, form_pool=POOL, pos_pool=('n', 'v', 'a', 's', 'r'),
                       requires=False, allow_no_pos_synset=False)
    if draw(st.booleans()):
        # both lexicons use the same entry/sense/synset ids (as two versions of a lexicon do)
        from dataclasses import replace
        prof = replace(prof, id_prefix_with_lexicon=False, id_suffix=False)
    both = draw(st.integers(0, 2)) > 0
    if draw(st.integers(0, 3)) > 0:
        # an extension may add further forms to a base entry: they are found with the extension
        # in scope and not through the base alone
        from dataclasses import replace
        prof = replace(prof, ext_new_forms=True)
    res = draw(gen.resources(prof, max_lexicons=2))
    if prof.ext_new_forms and len(res['lexicons']) == 2 and res['lexicons'][1].get('extends'):
        # the shape is rare when left to chance: make sure the extension gives some base entry
        # that has no further forms of its own (ranks cannot tie) a new form
        base, ext = res['lexicons']
        has = any(e.get('external') and any(not f.get('external') for f in e.get('forms', []))
                  for e in ext.get('entries', []))
        cands = [e for e in base.get('entries', []) if not e.get('forms')]
        if not has and cands:
            be = cands[0]
            xe = next((e for e in ext.get('entries', [])
                       if e.get('external') and e['id'] == be['id']), None)
            if xe is None:
                xe = {'id': be['id'], 'external': True}
                ext.setdefault('entries', []).append(xe)
            lemma = be['lemma']['writtenForm']
            xe.setdefault('forms', []).append(
                {'writtenForm': draw(st.sampled_from([f for f in POOL if f != lemma]))})
    if both and len(res['lexicons']) == 2 and not res['lexicons'][1].get('extends'):
        # two selected lexicons with one id scheme (two versions of a lexicon): the entry that
        # has the same id in both often has the same lemma too - both have to be found
        first = {e['id']: e for e in res['lexicons'][0].get('entries', [])}
        for e in res['lexicons'][1].get('entries', []):
            if e['id'] in first and draw(st.booleans()):
                wf = first[e['id']]['lemma']['writtenForm']
                if not any(f.get('writtenForm') == wf for f in e.get('forms', [])):
                    e['lemma']['writtenForm'] = wf
                    e['lemma']['partOfSpeech'] = first[e['id']]['lemma']['partOfSpeech']
    specs = [gen.spec_of(d) for d in res['lexicons']]
    sel = ' '.join(specs) if both else specs[0]
    stored = sorted({f['writtenForm'] for lx in res['lexicons'] for e in lx.get('entries', [])
                     for f in ([e['lemma']] if not e.get('external') else [])
                     + [x for x in e.get('forms', []) if not x.get('external')]})
    qpool = sorted({v for f in (stored or ['x']) for v in _variants(f)} | {'zzz', 'resum'})
    configs = []
    for _ in range(2):
        lem = draw(st.sampled_from(['none', 'none', 'table', 'table', 'morphy', 'morphy-init']))
        table = {}
        queries = []
        if lem == 'table':
            # several (pos, forms) groups per query, mixing exactly stored forms with
            # case/diacritic variants, so that one group can hit exactly while another
            # only matches after normalization
            cand = sorted(set(stored) | {v for f in stored for v in (f.upper(), f.title(),
                                                                      norm(f))}) or ['x']
            for q in draw(st.lists(st.sampled_from(qpool), min_size=2, max_size=6, unique=True)):
                groups = draw(st.lists(st.sampled_from(['', 'n', 'v', 'a']), min_size=1,
                                       max_size=3, unique=True))
                table[q] = {p: draw(st.lists(st.sampled_from(cand), min_size=0, max_size=2,
                                             unique=True)) for p in groups}
            keys = sorted(table)
            queries = [[draw(st.sampled_from(keys)), draw(st.sampled_from(POS))]
                       for _ in range(10)]
        configs.append({
            'normalizer': draw(st.sampled_from([True, True, False])),
            'search_all_forms': draw(st.booleans()),
            'lemmatizer': lem, 'table': table,
            'queries': queries + [[draw(st.sampled_from(qpool)), draw(st.sampled_from(POS))]
                                  for _ in range(16 - len(queries))],
        })
    return {'resource': res, 'selection': sel, 'configs': configs}


def _lemmatizer(cfg, w):
    import wn.morphy
    if cfg['lemmatizer'] == 'table':
        table = cfg['table']

        def lem(form, pos=None):
            ent = table.get(form, {})
            # a group may be empty: nothing proposed for that part of speech
            return {(p or None): set(fs) for p, fs in ent.items()}
        return lem
    if cfg['lemmatizer'] == 'morphy':
        return wn.morphy.Morphy()
    if cfg['lemmatizer'] == 'morphy-init':
        return wn.morphy.Morphy(w)
    return None


def _matches(view, entry, forms: set, normalized: bool, all_forms: bool) -> bool:
    sc = view.scope(entry.owner)
    for f in entry.forms:
        if f.owner not in sc:
            continue        # a form added by an extension that is not in scope
        if not all_forms and f.rank != 0:
            continue
        if f.form in forms:
            return True
        if normalized and norm(f.form) in forms:
            return True
    return False


def _search(view, kind, cands, normalized, all_forms):
    """One pass of the documented search for the given candidate map."""
    S = view.S
    found = set()
    for pos, forms in cands.items():
        forms = set(forms)
        if kind == 'words':
            for e in view.entries():
                if (pos is None or e.pos == pos) and _matches(view, e, forms, normalized, all_forms):
                    found.add(e.key)
        elif kind == 'senses':
            for s in view.senses():
                if (pos is None or s.entry.pos == pos) and \
                        _matches(view, s.entry, forms, normalized, all_forms):
                    found.add(s.key)
        else:
            for s in view.senses():
                ss = s.synset
                if ss.owner in S and (pos is None or ss.pos == pos) and \
                        _matches(view, s.entry, forms, normalized, all_forms):
                    found.add(ss.key)
    return found


def reference(view, kind, query, pos, cfg, lemmatize):
    cands = lemmatize(query, pos) if lemmatize else {}
    cands = {p: fs for p, fs in cands.items() if fs}     # only proposed (pos, form) pairs count
    if not cands:
        cands = {pos: {query}}
    normalized = cfg['normalizer']
    first = _search(view, kind, cands, normalized, cfg['search_all_forms'])
    if first or not normalized:
        return first, ('exact-or-normalized-column' if first else 'miss')
    second = _search(view, kind, {p: {norm(f) for f in fs} for p, fs in cands.items()},
                     True, cfg['search_all_forms'])
    return second, ('back-off' if second else 'miss')


_stats: dict = {}


def oracle(case):
    import wn
    from wn._util import normalize_form
    res = case['resource']
    env.fresh_db()
    wn.add_lexical_resource(res, progress_handler=None)
    wn.add_lexical_resource(res, progress_handler=None)
    ref = RefDB()
    ref.add_resource(res)
    ref.add_resource(res)
    specs = case['selection'].split()
    specs = [s for s in specs if ref.get(s) is not None]
    view = ref.view(specs, expand_specs=[])
    out: list[Disc] = []
    for ci, cfg in enumerate(case['configs']):
        w = wn.Wordnet(' '.join(specs), expand='',
                       normalizer=normalize_form if cfg['normalizer'] else None,
                       search_all_forms=cfg['search_all_forms'])
        lemmatize = _lemmatizer(cfg, w)
        w.lemmatizer = lemmatize
        for q, pos in cfg['queries']:
            for kind in ('words', 'senses', 'synsets'):
                got = getattr(w, kind)(q, pos)
                keys = [key_of(x) for x in got]
                exp, _cls = reference(view, kind, q, pos, cfg, lemmatize)
                label = f'{kind}({q!r},{pos}) norm={cfg["normalizer"]} all={cfg["search_all_forms"]} lem={cfg["lemmatizer"]}'
                if len(set(keys)) != len(keys):
                    out.append(Disc('duplicates', kind, sorted(set(keys)), keys, note=label))
                if set(keys) != exp:
                    out.append(Disc(f'search-result:{kind}', f'lem={cfg["lemmatizer"]}', sorted(exp), sorted(keys), note=label))
                if len(out) > 8:
                    return out
            # module-level functions: default configuration, no lemmatizer
            if ci == 0 and cfg['lemmatizer'] == 'none' and cfg['normalizer'] \
                    and cfg['search_all_forms']:
                for kind in ('words', 'senses', 'synsets'):
                    a = sorted(key_of(x) for x in getattr(w, kind)(q, pos))
                    b = sorted(key_of(x) for x in getattr(wn, kind)(q, pos,
                                                                    lexicon=' '.join(specs)))
                    if a != b:
                        out.append(Disc('module-level-differs', f'{kind}({q!r},{pos})', a, b))
    return out


def _classify(case):
    """Outcome classes need the model: recompute cheaply without wn."""
    res = case['resource']
    ref = RefDB()
    ref.add_resource(res)
    ref.add_resource(res)
    specs = [s for s in case['selection'].split() if ref.get(s) is not None]
    view = ref.view(specs, expand_specs=[])
    tags = set()
    if any(e.get('external') and any(not f.get('external') for f in e.get('forms', []))
           for lx in case['resource']['lexicons'] for e in lx.get('entries', [])):
        tags.add('extension-adds-form-to-base-entry')
        tags.add('extension-form:extension-selected' if len(specs) > 1
                 else 'extension-form:base-alone')
    for cfg in case['configs']:
        tags.add('lem:' + cfg['lemmatizer'])
        tags.add(f'norm:{cfg["normalizer"]}')
        tags.add(f'all-forms:{cfg["search_all_forms"]}')
        if cfg['lemmatizer'] == 'table':
            for q, pos in cfg['queries']:
                ent = cfg['table'].get(q, {})
                if ent and not all(ent.values()):
                    tags.add('lemmatizer-empty-group')
                cands = {(p or None): set(fs) for p, fs in ent.items() if fs}
                if len(cands) >= 2:
                    tags.add('lemmatizer-several-groups')
                    firsts = {p: _search(view, 'words', {p: fs}, cfg['normalizer'],
                                         cfg['search_all_forms']) for p, fs in cands.items()}
                    if cfg['normalizer'] and any(firsts.values()):
                        for p, fs in cands.items():
                            if not firsts[p] and _search(view, 'words', {p: {norm(f) for f in fs}},
                                                         True, cfg['search_all_forms']):
                                tags.add('groups-mixed-hit-and-backoff-only')
        if cfg['lemmatizer'] != 'none':
            continue
        for q, pos in cfg['queries']:
            exp, cls = reference(view, 'words', q, pos, cfg, None)
            if cls == 'back-off':
                tags.add('back-off-hit')
            elif cls == 'miss':
                near = any(norm(f.form) == norm(q) for e in view.entries() for f in e.forms)
                tags.add('miss-with-near-match' if near else 'miss')
            else:
                exact = _search(view, 'words', {pos: {q}}, False, cfg['search_all_forms'])
                tags.add('exact-hit' if exact == exp else 'normalized-column-hit')
    if len(res['lexicons']) > 1:
        tags.add('two-lexicons')
        ids = [{e['id'] for e in lx.get('entries', []) if not e.get('external')}
               for lx in res['lexicons']]
        if len(specs) > 1 and ids[0] & ids[1]:
            tags.add('selected-lexicons-share-ids')
            lem = [{e['id']: e['lemma']['writtenForm'] for e in lx.get('entries', [])
                    if not e.get('external')} for lx in res['lexicons']]
            if any(lem[0].get(i) == w_ for i, w_ in lem[1].items()):
                tags.add('same-id-and-lemma-in-both-selected-lexicons')
        if len(specs) == 1:
            tags.add('unselected-lexicon-present')
    nt = bool(tags & {'exact-hit', 'normalized-column-hit', 'back-off-hit',
                      'miss-with-near-match'})
    return nt, sorted(tags)


def _sample(case):
    return {'selection': case['selection'],
            'forms': [[(e['lemma']['writtenForm'], e['lemma']['partOfSpeech'],
                        [f.get('writtenForm') for f in e.get('forms', [])])
                       for e in lx.get('entries', []) if not e.get('external')]
                      for lx in case['resource']['lexicons']],
            'configs': [{k: v for k, v in c.items()} for c in case['configs']]}


SUBS = [
    Sub('form-search', oracle, _classify, strategy=lambda tier: _cases(),
        budget={'quick': 250, 'thorough': 4000}, sample=_sample,
        fingerprint=lambda c: fingerprint(c),
        require_tags=('exact-hit', 'normalized-column-hit', 'back-off-hit',
                      'miss-with-near-match', 'lemmatizer-empty-group', 'extension-adds-form-to-base-entry',
                      'extension-form:extension-selected', 'extension-form:base-alone', 'lem:table', 'lem:morphy', 'lem:morphy-init',
                      'groups-mixed-hit-and-backoff-only', 'selected-lexicons-share-ids',
                      'same-id-and-lemma-in-both-selected-lexicons')),
]
