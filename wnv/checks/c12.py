"""C12 - Relations borrowed through expand lexicons are mapped by ILI as documented."""

from __future__ import annotations

from hypothesis import strategies as st

from .. import env, gen, observe
from ..canon import diff, fingerprint
from ..harness import Disc, Sub
from ..observe import key_of, _raised
from ..refdb import RefDB

PROPERTY = 'C12'
LEVEL = 'exploration'
RULE = ('Hypothesis draws a lexicon L (few own relations) and expand lexicons E1, E2 with arbitrary '
        'synset relations, ILIs from a pool of 6 so that L misses some concepts, several synsets '
        'share an ILI and all three have synsets with no or a proposed ILI; Requires declared or '
        'not, provider installed or not; expand in {default, "", E1, "E1 E2", "*"}; restricted and '
        'unrestricted Wordnets. Oracle (reference database): expanded_lexicons() equals the '
        'documented default rule with a WnWarning iff a declared dependency is missing; for every '
        'synset: relation_map key set with each value among the allowed targets, relations(), '
        'get_related() (own targets first, then borrowed ones), hypernyms(); reported relations keep '
        'the expand lexicon\'s source/target/lexicon; targets without ILI are dropped, targets '
        'without local counterpart become placeholders; hypernym_paths() through chains of '
        'placeholders equals the reference enumeration of maximal simple paths on the mapped graph. '
        'Sub dependency-specifier-chars: a lexicon requiring a provider whose version is not a plain '
        'token (space, GLOB characters), decoy lexicons that the version would select if it were '
        'read as a specifier list, any install order: expanded_lexicons() is exactly the provider, no '
        'warning. '
        'Non-trivial: some synset has an expanded relation whose target maps to 0 (placeholder), '
        '>= 2 synsets, or is dropped; distinct by (lexicons, configuration).')
ASSUMPTIONS = [
    'identifiers are unique across the three lexicons (prefixed)',
    'explicit expand arguments name installed lexicons',
    'placeholders are identified by their ILI; hypernym_paths is not compared when two lexicons '
    'are selected, or in default mode from a lexicon that has an extension (wn then distinguishes '
    'placeholders of one ILI by the lexicon of the synset they were created from, which the '
    'statement leaves open)',
]

ILIS = ['i1', 'i2', 'i3', 'i4', 'i5', 'i6', '', '', 'in']
TYPES = ('hypernym', 'hypernym', 'instance_hypernym', 'hyponym', 'similar', 'zz_rel')
_ALL_TYPES = tuple(sorted(set(TYPES)))


def _lex(draw, lid, n, nrel, lex_id=None, version='1', prefer=()):
    ss = []
    pool = ILIS + [i for i in prefer if i and i != 'in'] * 2
    for i in range(n):
        ss.append({'id': f'{lid}-s{i}', 'ili': draw(st.sampled_from(pool)), 'partOfSpeech': 'n',
                   'meta': None})
    ids = [s['id'] for s in ss]
    for s in ss:
        rels = []
        for _ in range(draw(st.integers(0, nrel))):
            m = draw(st.sampled_from([None, None, {'type': 'a'}]))
            rels.append({'target': draw(st.sampled_from(ids)),
                         'relType': draw(st.sampled_from(TYPES)), 'meta': m})
        if rels:
            s['relations'] = rels
    return {'id': lex_id or lid, 'version': version, 'label': lid,
            'language': 'en' if lid == 'L' else 'es',
            'email': 'e', 'license': 'l', 'meta': None, 'synsets': ss}


@st.composite
def _cases(draw):
    # the two expand lexicons are two versions of one id: dependencies are id:version pairs
    E1 = _lex(draw, 'E1', draw(st.integers(2, 4)), 3, lex_id='E', version='1')
    shared = [x['ili'] for x in E1['synsets']]
    E2 = _lex(draw, 'E2', draw(st.integers(1, 3)), 2, lex_id='E', version='2', prefer=shared)
    L = _lex(draw, 'L', draw(st.integers(1, 4)), draw(st.integers(0, 1)), prefer=shared)
    reqs = []
    if draw(st.booleans()):
        reqs.append({'id': 'E', 'version': '1'})
    if draw(st.booleans()):
        reqs.append({'id': 'E', 'version': '2'})
    if draw(st.integers(0, 3)) == 0:
        reqs.append({'id': 'missing', 'version': '1'})
    if reqs:
        L['requires'] = reqs
    installed = ['L:1', 'E:1'] + (['E:2'] if draw(st.booleans()) else [])
    order = list(draw(st.permutations(installed)))
    lexicons = {'L:1': L, 'E:1': E1, 'E:2': E2}
    opts = [None, None, '', 'E:1', '*'] + (['E:1 E:2'] if 'E:2' in installed else [])
    if draw(st.integers(0, 2)) == 0:
        # an extension of E:1 among the expand lexicons: relations it declares between synsets of
        # E:1, from E:1 to its own synsets and back are relations of the expand lexicons too
        ids = [x['id'] for x in E1['synsets']]
        own = [{'id': f'EX-s{i}', 'ili': draw(st.sampled_from(ILIS + shared)),
                'partOfSpeech': 'n', 'meta': None} for i in range(draw(st.integers(1, 2)))]
        allids = ids + [x['id'] for x in own]
        ext_ss = []
        for sid in ids:
            rels = [{'target': draw(st.sampled_from(allids)),
                     'relType': draw(st.sampled_from(TYPES)), 'meta': None}
                    for _ in range(draw(st.integers(0, 2)))]
            d = {'id': sid, 'external': True}
            if rels:
                d['relations'] = rels
            ext_ss.append(d)
        for x in own:
            rels = [{'target': draw(st.sampled_from(allids)),
                     'relType': draw(st.sampled_from(TYPES)), 'meta': None}
                    for _ in range(draw(st.integers(0, 2)))]
            if rels:
                x['relations'] = rels
        lexicons['EX:1'] = {'id': 'EX', 'version': '1', 'label': 'EX', 'language': 'es',
                            'email': 'e', 'license': 'l', 'meta': None,
                            'extends': {'id': 'E', 'version': '1'}, 'synsets': ext_ss + own}
        order.insert(draw(st.integers(order.index('E:1') + 1, len(order))), 'EX:1')
        opts += ['E:1 EX:1', 'EX:1 E:1', '*']
        if draw(st.booleans()):
            L.setdefault('requires', []).append({'id': 'EX', 'version': '1'})
    if draw(st.integers(0, 2)) == 0:
        # one id scheme for both projects: E:1 uses L's synset id for a concept they share
        # (ids are unique within a lexicon only)
        ren: dict = {}
        for l_ in L['synsets']:
            if l_['ili'] and l_['ili'] != 'in' and l_['id'] not in ren.values():
                e_ = next((e for e in E1['synsets']
                           if e['ili'] == l_['ili'] and e['id'] not in ren), None)
                if e_ is not None:
                    ren[e_['id']] = l_['id']
        for lx in (E1, lexicons.get('EX:1')):
            for x in (lx or {}).get('synsets', []):
                x['id'] = ren.get(x['id'], x['id'])
                for r in x.get('relations', []):
                    r['target'] = ren.get(r['target'], r['target'])
    sel = draw(st.sampled_from(['L:1', 'L:1', 'L:1', None, 'L:1 E:1']))
    expand = draw(st.sampled_from(opts))
    return {'lexicons': lexicons, 'order': order, 'selection': sel, 'expand': expand}


def _setup(case):
    import wn
    env.fresh_db()
    ref = RefDB()
    for spec in case['order']:
        r = {'lmf_version': '1.1', 'lexicons': [case['lexicons'][spec]]}
        wn.add_lexical_resource(r, progress_handler=None)
        ref.add_resource(r)
    return ref


def _view(ref, case):
    sel, expand = case['selection'], case['expand']
    specs = sel.split() if sel else None
    if expand is None:
        exp_specs = None
    elif expand == '*':
        exp_specs = ref.installed()
    else:
        exp_specs = expand.split()
    return ref.view(specs, expand_specs=exp_specs)


def _classify(case):
    ref = RefDB()
    for spec in case['order']:
        ref.add_resource({'lmf_version': '1.1', 'lexicons': [case['lexicons'][spec]]})
    view = _view(ref, case)
    tags = {'expand:' + {None: 'default', '': 'empty'}.get(case['expand'], case['expand']),
            'mode:' + ('unrestricted' if case['selection'] is None else 'restricted')}
    L = case['lexicons']['L:1']
    if 'EX:1' in case['order'] and any(x.spec == 'EX:1' for x in view.expand):
        tags.add('extension-among-expand-lexicons')
    lids = {x['id']: x['ili'] for x in L['synsets']}
    if any(lids.get(x['id']) == x['ili'] for x in case['lexicons']['E:1']['synsets']
           if x['ili'] and x['ili'] != 'in') and any(x.spec == 'E:1' for x in view.expand):
        tags.add('expand-lexicon-reuses-synset-id-for-shared-ili')
    if case['selection'] and any(f"{d['id']}:{d['version']}" not in case['order']
                                 for d in L.get('requires', [])):
        tags.add('dependency-missing')
    nt = False
    for ss in view.synsets():
        own = len(view._rels(ref.synset_rels, ss))
        for r, sid, tid, keys in view.synset_relations(ss)[own:]:
            tags.add('expanded-relation')
            if isinstance(keys[0], dict):
                tags.add('placeholder')
                nt = True
            elif len(keys) >= 2:
                tags.add('many-to-many')
                nt = True
        if ss.ili is not None and view.E:
            for L_ in ref.lexs:
                if L_ in view.E:
                    for x in L_.synsets.values():
                        if x.ili == ss.ili and x is not ss:
                            for r in ref.synset_rels:
                                if r.src is x and r.tgt.ili is None and r.owner in view.E \
                                        and r.tgt.owner in view.E:
                                    tags.add('dropped-target-without-ili')
                                    nt = True
    return nt, sorted(tags)


# -- reference path enumeration on the mapped graph ---------------------------------

def _related(view, node, names, ctx_owner):
    """Targets (keys) of a node; node is an RSynset or ('ph', ili)."""
    ref = view.db
    if not isinstance(node, tuple):
        rels = view.synset_relations(node, names)
        out = []
        for _, _, _, keys in rels:
            for k in keys:
                if k not in out:
                    out.append(k)
        return out
    ili = node[1]
    out = []
    if not view.E:
        return out
    sc = view.scope(ctx_owner)
    for L_ in ref.lexs:
        if L_ not in view.E:
            continue
        for src in L_.synsets.values():
            if src.ili != ili:
                continue
            for r in ref.synset_rels:
                if r.src is not src or r.owner not in view.E or r.tgt.owner not in view.E:
                    continue
                if r.name not in names or r.tgt.ili is None:
                    continue
                local = [x for L2 in ref.lexs if L2 in sc for x in L2.synsets.values()
                         if x.ili == r.tgt.ili]
                keys = [x.key for x in local] if local else \
                    [{'placeholder': '*INFERRED*', 'ili': r.tgt.ili}]
                for k in keys:
                    if k not in out:
                        out.append(k)
    return out


def _node_of(view, key):
    if isinstance(key, dict):
        return ('ph', key['ili'])
    spec, _, sid = key.partition('|')
    return view.db.get(spec).synsets[sid]


def _kstr(k):
    return k if isinstance(k, str) else f"*INFERRED*[{k['ili']}]"


def reference_paths(view, start, names):
    """Maximal simple paths (as lists of key strings) from a real synset."""
    paths = []
    first = [k for k in _related(view, start, names, start.owner)
             if not (isinstance(k, str) and k == start.key)]
    agenda = [([k], {start.key, _kstr(k)}) for k in first]
    while agenda:
        path, visited = agenda.pop()
        nxt = [k for k in _related(view, _node_of(view, path[-1]), names, start.owner)
               if _kstr(k) not in visited]
        if nxt:
            for k in nxt:
                agenda.append((path + [k], visited | {_kstr(k)}))
        else:
            paths.append([_kstr(k) for k in path])
    return paths


def oracle(case):
    import wn
    ref = _setup(case)
    view = _view(ref, case)
    w, warns = observe.make_wordnet(case['selection'], None, case['expand'])
    if _raised(w):
        return [Disc('wordnet-raises', '', 'Wordnet object', w)]
    out: list[Disc] = []
    got_exp = sorted(observe.lexspec(x) for x in w.expanded_lexicons())
    if got_exp != sorted(x.spec for x in view.expand):
        out.append(Disc('expanded-lexicons', '', sorted(x.spec for x in view.expand), got_exp))
    if case['selection'] and case['expand'] is None:
        missing = sorted({f"{d['id']}:{d['version']}" for lx in view.sel
                          for d in lx.doc.get('requires', [])
                          if ref.get(f"{d['id']}:{d['version']}") is None})
        warned = any('not available' in m for m in warns)
        if bool(missing) != warned or any(m not in ' '.join(warns) for m in missing):
            out.append(Disc('missing-dependency-warning', '', missing, warns))
    elif warns:
        out.append(Disc('unexpected-warning', '', [], warns))
    names = ('hypernym', 'instance_hypernym')
    for rss in view.synsets():
        ss = next((x for x in w.synsets() if key_of(x) == rss.key), None)
        if ss is None:
            out.append(Disc('synset-missing', rss.key))
            continue
        exp = view.synset_obs(rss)
        got = observe.synset_obs(ss)
        for f in ('relation_map', 'relations', 'hypernyms', 'hyponyms'):
            for p, e, g in diff(exp[f], got[f], limit=4):
                out.append(Disc(f'expand:{f}', f'{f}{p}', e, g, note=rss.key))
        # own relations first, then borrowed ones
        own_n = len(view._rels(ref.synset_rels, rss))
        rels = view.synset_relations(rss)
        own, borrowed = [], []
        for i, (_, _, _, keys) in enumerate(rels):
            for k in keys:
                if i < own_n:
                    if k not in own:
                        own.append(k)
                elif k not in own and k not in borrowed:
                    borrowed.append(k)
        for p, e, g in diff({'__groups__': [own, borrowed]}, got['get_related'], limit=2):
            out.append(Disc('expand:get_related-order', f'get_related{p}', e, g, note=rss.key))
        # second hop: a placeholder keeps answering within the Wordnet it came from (same
        # expand lexicons, same scope), whatever else is installed
        for t in ss.get_related():
            k = key_of(t)
            if isinstance(k, dict):
                exp_next = sorted(_kstr(x) for x in _related(view, ('ph', k['ili']),
                                                            _ALL_TYPES, rss.owner))
                got_next = sorted(_kstr(key_of(x)) for x in t.get_related())
                if exp_next != got_next:
                    out.append(Disc('expand:second-hop-from-placeholder',
                                    f'*INFERRED*[{k["ili"]}].get_related()', exp_next, got_next,
                                    note=rss.key))
        # hypernym paths through placeholders (with two selected lexicons wn tells apart
        # placeholders of one ILI by the lexicon of the synset they were created from, so
        # "simple" is not decidable from ILIs alone: not compared there)
        if case['selection'] is not None and len(view.sel) > 1:
            continue
        if case['selection'] is None and len(view.scope(rss.owner)) > 1:
            # default mode: a lexicon and its extension act like two selected lexicons
            continue
        exp_paths = sorted(reference_paths(view, rss, names))
        got_paths = sorted([_kstr(key_of(x)) for x in path] for path in ss.hypernym_paths())
        if exp_paths != got_paths:
            out.append(Disc('expand:hypernym_paths', 'hypernym_paths', exp_paths, got_paths,
                            note=rss.key))
        if len(out) > 10:
            break
    return out


# -- declared dependencies whose version is not a plain token --------------------------------

_ODD_VERSIONS = ['1.0[rc]', '2021 beta', '1.*', 'v?', 'a b', '[1]', '1']


def _mini(lid, ver, ili, requires=None):
    # s0 (the given ILI) -hypernym-> s1 (ILI i2)
    d = {'id': lid, 'version': ver, 'label': lid, 'language': 'en', 'email': 'e', 'license': 'l',
         'meta': None, 'synsets': [
             {'id': f'{lid}-s0', 'ili': ili, 'partOfSpeech': 'n', 'meta': None,
              'relations': [{'target': f'{lid}-s1', 'relType': 'hypernym', 'meta': None}]},
             {'id': f'{lid}-s1', 'ili': 'i2', 'partOfSpeech': 'n', 'meta': None}]}
    if lid == 'L':
        d['synsets'][0].pop('relations')          # L borrows its relations
    if requires:
        d['requires'] = requires
    return d


@st.composite
def _dep_cases(draw):
    ver = draw(st.sampled_from(_ODD_VERSIONS))
    # decoys: what the version would select if it were read as a specifier / pattern list
    decoys = [('P', '1.0r'), ('P', '1.0c'), ('P', '1.x'), ('P', 'v1'), ('P', '1'), ('P', 'a'),
              ('beta', '1'), ('b', '1')]
    chosen = [d for d in decoys if d != ('P', ver) and draw(st.booleans())]
    lexs = [_mini('P', ver, 'i1')] + [_mini(i, v, 'i1') for i, v in chosen]
    L = _mini('L', '1', 'i1', [{'id': 'P', 'version': ver}])
    more = []
    if draw(st.booleans()):
        # a second selected lexicon with the same dependencies: still one expand lexicon
        more = [_mini('M', '1', 'i1', [{'id': 'P', 'version': ver}])]
    order = draw(st.permutations(lexs + [L] + more))
    return {'docs': list(order), 'provider': ['P', ver],
            'selection': 'L:1 M:1' if more else 'L:1'}


def _dep_classify(case):
    tags = {'version:' + case['provider'][1]}
    if case.get('selection') == 'L:1 M:1':
        tags.add('two-dependents-one-provider')
    if len(case['docs']) > 2:
        tags.add('decoys')
    if case['docs'][0]['id'] == 'L' or [d['id'] for d in case['docs']].index('L') < \
            [(d['id'], d['version']) for d in case['docs']].index(tuple(case['provider'])):
        tags.add('dependent-added-first')
    return True, sorted(tags)


def _dep_oracle(case):
    import warnings
    import wn
    env.fresh_db()
    for d in case['docs']:
        wn.add_lexical_resource({'lmf_version': '1.1', 'lexicons': [d]}, progress_handler=None)
    out = []
    with warnings.catch_warnings(record=True) as caught:
        warnings.simplefilter('always')
        w = observe.call(wn.Wordnet, case.get('selection', 'L:1'))
    if _raised(w):
        return [Disc('dependency:wordnet-raises', "Wordnet('L:1')", 'a Wordnet', w,
                     note=str(case['provider']))]
    got = [[x.id, x.version] for x in w.expanded_lexicons()]
    if got != [case['provider']]:
        out.append(Disc('dependency:expanded-lexicons', "Wordnet('L:1').expanded_lexicons()",
                        [case['provider']], got))
    if caught:
        out.append(Disc('dependency:unexpected-warning', "Wordnet('L:1')", [],
                        [str(c.message) for c in caught]))
    # the borrowed relation keeps the expand lexicon as its lexicon
    if not out:
        for r, tgt in w.synset('L-s0').relation_map().items():
            lx = observe.call(r.lexicon)
            got_lx = lx if _raised(lx) else [lx.id, lx.version]
            # (with two selected lexicons relation_map() keeps one of the local targets)
            if got_lx != case['provider'] or key_of(tgt) not in ('L:1|L-s1', 'M:1|M-s1'):
                out.append(Disc('dependency:relation-lexicon', 'L-s0 hypernym .lexicon()',
                                [case['provider'], 'L:1|L-s1'], [got_lx, key_of(tgt)]))
    return out


def _sample(case):
    return {'order': case['order'], 'selection': case['selection'], 'expand': case['expand'],
            'lexicons': {k: {'requires': v.get('requires'),
                             'synsets': [(s['id'], s['ili'],
                                          [(r['relType'], r['target']) for r in
                                           s.get('relations', [])]) for s in v['synsets']]}
                         for k, v in case['lexicons'].items()}}


SUBS = [
    Sub('dependency-specifier-chars', _dep_oracle, _dep_classify,
        strategy=lambda tier: _dep_cases(), budget={'quick': 40, 'thorough': 600},
        sample=lambda c: c, fingerprint=lambda c: fingerprint(c)),
    Sub('expand', oracle, _classify, strategy=lambda tier: _cases(),
        budget={'quick': 500, 'thorough': 6000}, sample=_sample, case_timeout=120,
        fingerprint=lambda c: fingerprint(c),
        require_tags=('placeholder', 'many-to-many', 'dropped-target-without-ili',
                      'dependency-missing', 'mode:unrestricted',
                      'expand-lexicon-reuses-synset-id-for-shared-ili')),
]
