"""C08 - Lexicon specifiers and language codes select exactly the documented lexicons.

The documented table (docs/guides/lexicons.rst, "Lexicon and Project Specifiers")::

    *           -- any/all lexicons
    id          -- the most recently added lexicon with the given id
    id:*        -- all lexicons with the given id
    id:version  -- the lexicon with the given id and version
    *:version   -- all lexicons with the given version

    "For example, if ``ewn:2020`` was installed followed by ``ewn:2019``, then
    ``ewn`` would specify the ``2019`` version, ``ewn:*`` would specify both
    versions, and ``ewn:2020`` would specify the ``2020`` version."

``wn.Wordnet``: "a *lang* argument is a BCP 47 language code that restricts the
selected lexicons to those whose language matches the given code.  A *lexicon*
argument is a space-separated list of lexicon specifiers".  ``wn.remove``: "The
*lexicon* argument is a lexicon specifier" (example ``wn.remove('omw-*:1.4')``).

The reference resolver below is written from that table and from the property
statement only; it never looks at wn's SQL.  Where the documentation leaves a
reading open the resolver returns *every* allowed answer (see ``_token_alts``).
"""

from __future__ import annotations

import itertools
import re

from hypothesis import strategies as st

from .. import dumps, env
from ..harness import Disc, Sub

PROPERTY = 'C08'
LEVEL = 'exploration'
RULE = ('Hypothesis draws a database of 2-7 content-free lexicons (ids a/ab/a-b/b/wn/A, versions '
        '1/1.0/1.0+x/2-rc/10/2020, languages en/en-GB/es) built by a history: one resource per '
        'lexicon added in a drawn order, optionally wn.remove(id:version) followed by a re-add '
        '(immediately or after the remaining adds), optionally a final removal; the installed '
        'list is verified against the model before any query. Sub "select": up to 10 (quick) / 15 (thorough) '
        '(specifier, lang) queries per database (count drawn, mostly the maximum) from the Appendix-D grammar (*, id, id:ver, id:*, *:ver, globs '
        'with * and ? in either part, colon-less globs, lists of 2-3 tokens, lexicon omitted; '
        'lang in {None, a used language, a pool language, an unused one}); '
        'wn.lexicons() and wn.Wordnet().lexicons() compared as sets of id:version with the '
        'reference resolver (nothing matched -> [] / wn.Error), and a list compared with the '
        'union of what wn returns for its tokens. Sub "remove": up to 3 / 5 specifiers per database, each '
        'applied with wn.remove to a copy of the database; the removed set must equal the '
        'resolver\'s set and the set wn.lexicons() selected for the same specifier. Non-trivial: '
        'some query of the case selects a non-empty proper subset and the database has an id with '
        '>= 2 versions or a prefix pair of ids; distinct by (database history, queries).')
ASSUMPTIONS = [
    'ids, versions and languages contain no glob metacharacter (* ? [) and no whitespace or colon',
    'ids that differ only in letter case (a / A) are different ids ("id:version exactly that '
    'lexicon"); matching is case-sensitive (Appendix D)',
    'databases are never empty when queried (the statement is silent on "*" over an empty database)',
    'an installed lexicon is never added again (whether a skipped add counts as "most recently '
    'added" is not documented); recency = order of successful adds, removal forgets it',
    'lang restricts by equality of the language code (DESIGN C08; no BCP-47 range matching), '
    'codes are compared in the case they were stored',
    'colon-less glob tokens (e.g. "a?", "*b"): both readings accepted - completed with ":*" '
    '(Appendix D) or matched against id:version as is (statement wording)',
    'bare id with lang: both readings accepted - newest lexicon of that id then language filter, '
    'or newest lexicon of that id among those of the language',
    'wn.remove of a specifier that matches nothing may raise wn.Error or do nothing; the database '
    'must be unchanged either way; no extensions are installed',
    'wn.remove(id:version) with an exact specifier is used to build histories; its effect is '
    'verified against the model (installed list) before the case proceeds',
]

IDS = ['a', 'ab', 'a-b', 'b', 'wn', 'A']     # 'A': ids differing only in case are distinct ids
VERSIONS = ['1', '1.0', '1.0+x', '2-rc', '10', '2020']
LANGS = ['en', 'en-GB', 'es']
UNUSED_LANG = 'fr'
_ID_WEIGHTED = ['a', 'a', 'a', 'ab', 'ab', 'a-b', 'a-b', 'b', 'wn', 'A']   # favour prefix pairs
ABSENT_IDS = ['abc', 'w', 'a-']          # never installed (prefix / extension of pool ids)
ABSENT_VERSIONS = ['3', '1.', '20']      # never installed
META = '*?'


# ---------------------------------------------------------------------------
# reference resolver (pure; works on the model only)

def _glob(pattern: str, s: str) -> bool:
    """Case-sensitive glob: * any string (also empty), ? exactly one character."""
    rx = ''.join('.*' if c == '*' else '.' if c == '?' else re.escape(c) for c in pattern)
    return re.fullmatch(rx, s, flags=re.DOTALL) is not None


def _spec(lx) -> str:
    return f'{lx[0]}:{lx[1]}'


def _token_class(tok: str) -> str:
    has_meta = any(c in tok for c in META)
    if tok == '*':
        return 'star'
    if ':' not in tok:
        return 'glob-nocolon' if has_meta else 'bare-id'
    i, _, v = tok.partition(':')
    if not has_meta:
        return 'id:ver'
    if v == '*' and not any(c in i for c in META):
        return 'id:star'
    if i == '*' and not any(c in v for c in META):
        return 'star:ver'
    return 'glob'


def _spec_class(spec) -> str:
    if spec is None:
        return 'omitted'
    toks = spec.split()
    return _token_class(toks[0]) if len(toks) == 1 else 'list'


def _token_alts(tok: str, installed: list, lang) -> list:
    """All selections the documentation allows for one token.

    *installed* is the list of (id, version, language) in order of (last) addition.
    """
    def keep(lexs):
        return frozenset(_spec(lx) for lx in lexs if lang is None or lx[2] == lang)

    cls = _token_class(tok)
    if cls == 'bare-id':
        # "id -- the most recently added lexicon with the given id"
        with_id = [lx for lx in installed if lx[0] == tok]
        alts = [keep(with_id[-1:])]
        # other reading of "a language code further restricts": newest among that language
        of_lang = [lx for lx in with_id if lang is None or lx[2] == lang]
        alts.append(keep(of_lang[-1:]))
    elif ':' in tok or tok == '*':
        pat = '*:*' if tok == '*' else tok
        alts = [keep(lx for lx in installed if _glob(pat, _spec(lx)))]
    else:
        # colon-less glob: Appendix D completes with ':*'; the statement says globs match id:version
        alts = [keep(lx for lx in installed if _glob(tok + ':*', _spec(lx))),
                keep(lx for lx in installed if _glob(tok, _spec(lx)))]
    out = []
    for a in alts:
        if a not in out:
            out.append(a)
    return out


def resolve(spec, installed: list, lang) -> list:
    """List of allowed selections (frozensets of 'id:version'); first = Appendix-D reading."""
    if spec is None:
        return _token_alts('*', installed, lang)
    per_token = [_token_alts(t, installed, lang) for t in spec.split()]
    out = []
    for combo in itertools.product(*per_token):
        u = frozenset().union(*combo)
        if u not in out:
            out.append(u)
    return out


def _run_history(case, apply=None):
    """Model of the history: list of (id, version, language) in order of last addition."""
    lexs = [tuple(x) for x in case['lexicons']]
    installed = []
    for op, k in case['history']:
        lx = lexs[k]
        if op == 'add':
            if lx in installed:
                raise env.HarnessError('history adds an installed lexicon')
            installed.append(lx)
        else:
            if lx not in installed:
                raise env.HarnessError('history removes an absent lexicon')
            installed.remove(lx)
        if apply is not None:
            apply(op, lx)
    if len(installed) < 2:
        raise env.HarnessError('history leaves fewer than two lexicons')
    return installed


# ---------------------------------------------------------------------------
# generators

def _mutate(draw, s: str) -> str:
    """Put glob metacharacters into *s* (a single '?', or '*' over a slice)."""
    kind = draw(st.sampled_from(['?', '*', '*', '??', 'all?']))
    if kind == 'all?':
        return '?' * len(s)
    if kind == '?':
        p = draw(st.integers(0, len(s) - 1))
        return s[:p] + '?' + s[p + 1:]
    if kind == '??':
        p = draw(st.integers(0, len(s) - 1))
        q = draw(st.integers(0, len(s) - 1))
        t = list(s)
        t[p] = '?'
        t[q] = '?'
        return ''.join(t)
    i = draw(st.integers(0, len(s)))
    j = draw(st.integers(i, len(s)))
    return s[:i] + '*' + s[j:]


@st.composite
def _token(draw, ids, versions, pairs):
    some_id = st.sampled_from(ids * 4 + IDS + ABSENT_IDS[:1])
    some_ver = st.sampled_from(versions * 3 + VERSIONS + ABSENT_VERSIONS[:1])
    cls = draw(st.sampled_from(['star', 'bare-id', 'bare-id', 'bare-id', 'id:ver', 'id:ver',
                                'id:star', 'id:star', 'star:ver', 'star:ver', 'glob', 'glob',
                                'glob', 'glob-nocolon', 'glob-nocolon', 'absent']))
    if cls == 'star':
        return '*'
    if cls == 'bare-id':
        return draw(some_id)
    if cls == 'id:ver':
        if draw(st.sampled_from([True, True, True, False])):
            return _spec(draw(st.sampled_from(pairs)))
        return draw(some_id) + ':' + draw(some_ver)
    if cls == 'id:star':
        return draw(some_id) + ':*'
    if cls == 'star:ver':
        return '*:' + draw(some_ver)
    if cls == 'absent':
        return draw(st.sampled_from(ABSENT_IDS + [i + ':' + ABSENT_VERSIONS[0] for i in ids]
                                    + [ABSENT_IDS[0] + ':' + v for v in versions]
                                    + ['*:' + v for v in ABSENT_VERSIONS]
                                    + [a + ':*' for a in ABSENT_IDS]))
    if cls == 'glob':
        i, v = draw(some_id), draw(some_ver)
        which = draw(st.sampled_from(['id', 'ver', 'both']))
        if which in ('id', 'both'):
            i = _mutate(draw, i)
        if which in ('ver', 'both'):
            v = _mutate(draw, v)
        return i + ':' + v
    # colon-less glob
    if draw(st.sampled_from([True, True, True, False])):
        return _mutate(draw, draw(some_id))
    s = draw(some_id) + ':' + draw(some_ver)
    p = s.index(':')
    i = draw(st.integers(0, p))
    j = draw(st.integers(p + 1, len(s)))
    return s[:i] + '*' + s[j:]


@st.composite
def _specifier(draw, ids, versions, pairs, list_weight=2, allow_none=1):
    n = draw(st.sampled_from([0] * allow_none + [1] * 12 + [2] * 4 * list_weight
                             + [3] * 3 * list_weight))
    if n == 0:
        return None         # lexicon argument omitted
    return ' '.join(draw(_token(ids, versions, pairs)) for _ in range(n))


@st.composite
def _database(draw):
    ids = draw(st.lists(st.sampled_from(_ID_WEIGHTED), min_size=1, max_size=4, unique=True))
    pairs = draw(st.lists(st.tuples(st.sampled_from(ids), st.sampled_from(VERSIONS)),
                          min_size=2, max_size=7, unique=True))
    n = len(pairs)
    if draw(st.booleans()):
        by_id = {i: draw(st.sampled_from(LANGS)) for i in sorted({p[0] for p in pairs})}
        langs = [by_id[p[0]] for p in pairs]
    else:
        langs = [draw(st.sampled_from(LANGS)) for _ in pairs]
    lexicons = [[i, v, l] for (i, v), l in zip(pairs, langs)]
    order = draw(st.permutations(range(n)))
    cut = draw(st.integers(1, n))
    history = [['add', k] for k in order[:cut]]
    late = []
    n_events = min(cut, draw(st.sampled_from([0, 1, 1, 2])))
    for k in draw(st.lists(st.sampled_from(order[:cut]), min_size=n_events, max_size=n_events,
                           unique=True)):
        history.append(['remove', k])
        if draw(st.booleans()):
            history.append(['add', k])
        else:
            late.append(['add', k])
    history += [['add', k] for k in order[cut:]]
    history += late
    if n >= 3 and draw(st.sampled_from([False] * 4 + [True])):
        history.append(['remove', draw(st.sampled_from(order))])
    return {'lexicons': lexicons, 'history': history}


def _vocab(db):
    lexs = db['lexicons']
    ids = sorted({lx[0] for lx in lexs})
    versions = sorted({lx[1] for lx in lexs})
    pairs = [(lx[0], lx[1]) for lx in lexs]
    return ids, versions, pairs


@st.composite
def _select_cases(draw, nq):
    db = draw(_database())
    ids, versions, pairs = _vocab(db)
    used = sorted({lx[2] for lx in db['lexicons']})
    other = [l for l in LANGS if l not in used] + [UNUSED_LANG]
    lang_st = st.sampled_from([None] * 6 + (used * 6)[:6] + other[-2:])
    # the count is drawn (biased to nq) only so that failing cases shrink to one query
    k = draw(st.sampled_from([1, 2, max(2, nq // 2)] + [nq] * 9))
    queries = [[draw(_specifier(ids, versions, pairs)), draw(lang_st)] for _ in range(k)]
    return dict(db, queries=queries)


@st.composite
def _remove_cases(draw, nq):
    db = draw(_database())
    ids, versions, pairs = _vocab(db)
    k = draw(st.sampled_from([1] + [nq] * 7))
    specs = [draw(_specifier(ids, versions, pairs, list_weight=4, allow_none=0))
             for _ in range(k)]
    return dict(db, removes=specs)


# ---------------------------------------------------------------------------
# classification (pure)

def _db_tags(case, installed):
    tags = []
    ids = sorted({lx[0] for lx in installed})
    multi = [i for i in ids if sum(1 for lx in installed if lx[0] == i) >= 2]
    if multi:
        tags.append('db:multi-version-id')
    if any(a != b and b.startswith(a) for a in ids for b in ids):
        tags.append('db:prefix-ids')
    if any(a != b and a.lower() == b.lower() for a in ids for b in ids):
        tags.append('db:ids-differing-in-case-only')
    if any(op == 'remove' for op, _ in case['history']):
        tags.append('db:history-with-removal')
    if len(installed) < len(case['lexicons']):
        tags.append('db:once-installed-lexicon-absent')
    first_adds = []
    for op, k in case['history']:
        lx = tuple(case['lexicons'][k])
        if op == 'add' and lx not in first_adds:
            first_adds.append(lx)
    if [lx for lx in first_adds if lx in installed] != installed:
        tags.append('db:re-add-changed-recency-order')
    for i in multi:
        mine = [lx for lx in installed if lx[0] == i]
        if mine[-1] != [lx for lx in first_adds if lx in mine][-1]:
            tags.append('db:newest-of-an-id-is-a-re-add')
        if mine[-1][1] != max(lx[1] for lx in mine):
            tags.append('db:newest!=greatest-version-string')
        if len({lx[2] for lx in mine}) > 1:
            tags.append('db:id-in-several-languages')
    return tags, bool(multi) or 'db:prefix-ids' in tags


def _query_tags(spec, lang, installed, used_langs):
    tags = ['spec:' + _spec_class(spec)]
    if spec is not None and len(spec.split()) > 1:
        classes = {_token_class(t) for t in spec.split()}
        for c in classes:
            tags.append('list-has:' + c)
        if 'bare-id' in classes and any('*' in t for t in spec.split()):
            tags.append('list:bare-id+star')
    tags.append('lang:none' if lang is None else
                'lang:used' if lang in used_langs else 'lang:unused')
    alts = resolve(spec, installed, lang)
    if len(alts) > 1:
        tags.append('oracle:several-readings')
    first = alts[0]
    allspecs = {_spec(lx) for lx in installed}
    size = 'empty' if not first else 'all' if first == allspecs else 'proper-subset'
    tags.append('result:' + size)
    if spec is not None:
        for t in spec.split():
            if _token_class(t) == 'bare-id':
                mine = [lx for lx in installed if lx[0] == t]
                if len(mine) >= 2:
                    tags.append('bare-id:several-versions')
                if len({lx[2] for lx in mine}) >= 2 and lang is not None:
                    tags.append('bare-id:several-languages+lang')
                if any(lx[0] != t and lx[0].startswith(t) for lx in installed):
                    tags.append('bare-id:is-prefix-of-other-id')
    return tags, size == 'proper-subset'


def _classify(case):
    installed = _run_history(case)
    used = {lx[2] for lx in installed}
    tags, interesting_db = _db_tags(case, installed)
    proper = False
    queries = case.get('queries')
    if queries is None:
        queries = [[s, None] for s in case['removes']]
    for spec, lang in queries:
        t, p = _query_tags(spec, lang, installed, used)
        tags += t
        proper = proper or p
    return interesting_db and proper, sorted(set(tags))


# ---------------------------------------------------------------------------
# driving wn

def _resource(lx):
    i, v, l = lx
    doc = {'id': i, 'version': v, 'label': f'lexicon {i} {v}', 'language': l,
           'email': 'c08@example.org', 'license': 'https://example.org/license',
           'meta': None}
    # some lexicons declare dependencies (a fixed function of id and version): on a lexicon
    # that is never installed, or on another id:version of the pool that may or may not be
    # installed at the time.  Selection by specifier / language does not depend on them.
    k = (len(i) * 7 + len(v) * 3 + sum(map(ord, v))) % 4
    if k == 0:
        doc['requires'] = [{'id': 'nowhere', 'version': '9'}]
    elif k == 1:
        doc['requires'] = [{'id': 'a', 'version': '1'}, {'id': 'nowhere', 'version': '9'}]
    elif k == 2:
        doc['requires'] = [{'id': 'b', 'version': '1.0'}]
    return {'lmf_version': '1.1', 'lexicons': [doc]}


def _build(case, out):
    """Fresh database following the history; None if it does not match the model."""
    import wn
    db = env.fresh_db()

    def apply(op, lx):
        if op == 'add':
            wn.add_lexical_resource(_resource(lx), progress_handler=None)
        else:
            wn.remove(_spec(lx), progress_handler=None)

    installed = _run_history(case, apply)
    got = dumps.installed(db.file)
    want = [_spec(lx) for lx in installed]
    if sorted(got) != sorted(want):
        out.append(Disc('history-state-differs', 'build', sorted(want), sorted(got),
                        note='installed lexicons after the add/remove history'))
        return None, installed
    return db, installed


def _ids(lexicons) -> frozenset:
    return frozenset(f'{lx.id}:{lx.version}' for lx in lexicons)


def _show(alts, error_when_empty=False):
    def one(a):
        return 'wn.Error' if (error_when_empty and not a) else sorted(a)
    if len(alts) == 1:
        return one(alts[0])
    return {'one of': [one(a) for a in alts]}


# discrepancy kinds in the order they are reported (rarer classes first, so that a case showing
# several defects is bucketed under the rarer one; the common ones still get their own cases)
_PRIORITY = ['list-not-union', 'wrong-selection:glob-nocolon', 'wrong-selection:glob',
             'wrong-selection:star:ver', 'wrong-selection:id:star', 'wrong-selection:id:ver',
             'wrong-selection:star', 'wrong-selection:omitted', 'wrong-selection:bare-id',
             'wrong-selection:list']


def _prio(d):
    return _PRIORITY.index(d.kind) if d.kind in _PRIORITY else len(_PRIORITY)


def oracle_select(case):
    import wn
    out: list[Disc] = []
    db, installed = _build(case, out)
    if db is None:
        return out
    single: dict = {}

    def lexicons_of(spec, lang):
        key = (spec, lang)
        if key not in single:
            raw = wn.lexicons(lexicon=spec, lang=lang)
            single[key] = _ids(raw)
            # a union lists each selected lexicon once
            if len(raw) != len(single[key]):
                out.append(Disc('duplicate-in-selection', 'wn.lexicons', sorted(single[key]),
                                [f'{x.id}:{x.version}' for x in raw],
                                note=f'lexicon={spec!r} lang={lang!r}'))
        return single[key]

    for n, (spec, lang) in enumerate(case['queries']):
        alts = resolve(spec, installed, lang)
        cls = _spec_class(spec)
        note = f'query {n}: lexicon={spec!r} lang={lang!r}; installed (oldest first): ' \
               + ' '.join(f'{_spec(lx)}[{lx[2]}]' for lx in installed)
        # wn.lexicons(): the selection, [] when nothing matches
        got = lexicons_of(spec, lang)
        if got not in alts:
            out.append(Disc(f'wrong-selection:{cls}', 'wn.lexicons', _show(alts), sorted(got),
                            note=note))
        # wn.Wordnet(): the selection, wn.Error when nothing matches
        try:
            wgot = _ids(wn.Wordnet(lexicon=spec, lang=lang).lexicons())
            raised = False
        except wn.Error:
            wgot = frozenset()
            raised = True
        ok = any((not a and raised) or (a and not raised and wgot == a) for a in alts)
        if not ok:
            out.append(Disc(f'wrong-selection:{cls}', 'wn.Wordnet', _show(alts, True),
                            'wn.Error' if raised else sorted(wgot), note=note))
        # "a space-separated list the union": wn against itself, token by token
        if cls == 'list':
            union = frozenset().union(*(lexicons_of(t, lang) for t in spec.split()))
            if got != union:
                out.append(Disc('list-not-union', 'wn.lexicons',
                                {'union of the tokens taken alone': sorted(union),
                                 'tokens': {t: sorted(lexicons_of(t, lang))
                                            for t in spec.split()}},
                                sorted(got), note=note))
    out.sort(key=_prio)
    return out


def oracle_remove(case):
    import wn
    out: list[Disc] = []
    db, installed = _build(case, out)
    if db is None:
        return out
    before = frozenset(_spec(lx) for lx in installed)
    for n, spec in enumerate(case['removes']):
        alts = resolve(spec, installed, None)
        note = f'remove {n}: {spec!r}; installed (oldest first): ' \
               + ' '.join(_spec(lx) for lx in installed)
        db.use()
        selected = _ids(wn.lexicons(lexicon=spec))
        copy = db.copy().use()
        try:
            wn.remove(spec, progress_handler=None)
            raised = False
        except wn.Error:
            raised = True
        after = frozenset(dumps.installed(copy.file))
        removed = before - after
        if after - before:
            out.append(Disc('remove-adds-lexicons', 'wn.remove', [], sorted(after - before),
                            note=note))
        if removed != selected:
            out.append(Disc('remove-differs-from-own-selection', 'wn.remove',
                            {'wn.lexicons(lexicon=spec) on the same database': sorted(selected)},
                            {'removed': sorted(removed)}, note=note))
        if removed not in alts:
            out.append(Disc(f'remove-wrong-selection:{_spec_class(spec)}', 'wn.remove',
                            {'removed': _show(alts)}, {'removed': sorted(removed)}, note=note))
        elif raised and removed:
            out.append(Disc('remove-raises-after-removing', 'wn.remove', 'no error',
                            'wn.Error', note=note))
    db.use()
    out.sort(key=lambda d: 0 if d.kind == 'remove-differs-from-own-selection' else 1)
    return out


# ---------------------------------------------------------------------------

def _sample(case):
    installed = _run_history(case)
    s = {'installed_oldest_first': [f'{_spec(lx)}[{lx[2]}]' for lx in installed],
         'history': [f'{op} {_spec(case["lexicons"][k])}' for op, k in case['history']]}
    if 'queries' in case:
        s['queries'] = [{'lexicon': q, 'lang': l, 'expected': _show(resolve(q, installed, l))}
                        for q, l in case['queries'][:6]]
    else:
        s['removes'] = [{'lexicon': q, 'expected': _show(resolve(q, installed, None))}
                        for q in case['removes']]
    return s


_MUST_SELECT = ('spec:star', 'spec:bare-id', 'spec:id:ver', 'spec:id:star', 'spec:star:ver',
                'spec:glob', 'spec:glob-nocolon', 'spec:list', 'spec:omitted',
                'list:bare-id+star', 'lang:none', 'lang:used', 'lang:unused',
                'result:empty', 'result:all', 'result:proper-subset',
                'db:multi-version-id', 'db:prefix-ids', 'db:history-with-removal',
                'db:re-add-changed-recency-order', 'db:newest-of-an-id-is-a-re-add',
                'db:newest!=greatest-version-string', 'db:ids-differing-in-case-only',
                'bare-id:several-versions', 'bare-id:is-prefix-of-other-id')

SUBS = [
    Sub('select', oracle_select, _classify,
        strategy=lambda tier: _select_cases(10 if tier == 'quick' else 15),
        budget={'quick': 300, 'thorough': 1000}, sample=_sample, purge_every=40,
        require_tags=_MUST_SELECT),
    Sub('remove', oracle_remove, _classify,
        strategy=lambda tier: _remove_cases(3 if tier == 'quick' else 5),
        budget={'quick': 150, 'thorough': 400}, sample=_sample, purge_every=20,
        require_tags=('spec:list', 'spec:bare-id', 'spec:glob', 'result:proper-subset',
                      'bare-id:several-versions')),
]
