"""C18 - The validator always produces a report and each check is exact."""

from __future__ import annotations

import copy
import os
import subprocess
import sys

from hypothesis import strategies as st

from .. import dumps, env, gen, xmlw
from ..canon import diff, fingerprint
from ..harness import Disc, Sub
from ..validateref import (CODES, DISPUTED_REVERSE, DocsError, allowed_keys, context_ok,
                           must_keys, parse_constants_rst, reference)

PROPERTY = 'C18'
LEVEL = 'exploration'
RULE = ('Hypothesis draws a valid non-extension lexicon (LMF 1.0-1.3, Unicode ids and text), a '
        'writer style, 0-4 breakage operators (26 operators, each with 2-6 variants including '
        'near-miss negatives: duplicate ids of every kind and across kinds, dangling synset / '
        'relation targets, empty synsets, repeated / proposed / spurious ILIs, blank and repeated '
        'definitions, blank examples, relation types of the wrong inventory, redundant relations '
        'with equal / different / absent dc:type, missing and reciprocated reverses, hypernyms of '
        'another or no part of speech, self-loops, sense-less entries, redundant senses and '
        'entries) applied deterministically (positions modulo the number of candidates), and 3-4 '
        'selections (one full battery, the others sub-multisets of the 18 codes and E/W). The '
        'independent writer produces the file, wn.lmf.load the lexicon. Oracle: every one of the 18 '
        'codes alone and every drawn selection returns (never raises) a dict keyed by exactly the '
        'selected codes with message+items; must <= items <= must|may against the independent '
        'reference (wnv/validateref.py, inventories parsed from docs/api/wn.constants.rst); every '
        "item's context describes one real offence of that key; if E204/E401 list anything "
        'add_lexical_resource raises and the raw table dump is unchanged; on ~1 case in 10 '
        '`python -m wn validate --select` exits 0 iff every selected check is empty. A stratified '
        'family forces every operator (variant = repetition index) so all 18 codes are hit in every '
        'run. Non-trivial: >= 1 operator and >= 1 check non-empty; distinct by fingerprint.')
ASSUMPTIONS = [
    'the eighteen codes and their sentences are those of the wn.validate module documentation; '
    'the reading of each sentence (must / may) is DESIGN.md appendix B, narrowed further where '
    'duplicate ids make "the same entity" ambiguous (those cases are may)',
    'relation inventories and the reverse map are parsed from docs/api/wn.constants.rst; '
    "'also' and 'pertainym' (documented as self-reverse, absent from wn/constants.py) are may",
    'context field names are not documented: the names count, entry, synset, ili, type, target, '
    'dc:type are interpreted when present, any other field is ignored',
    'the reference is computed on the lexicon wn.lmf.load returned (C02 covers load itself)',
    'any exception from add_lexical_resource counts as rejection',
    'the CLI is run with PYTHONIOENCODING=utf-8; any non-zero status counts as "not 0"',
    'element text holds no Unicode whitespace other than single interior U+0020 (DESIGN 3.1)',
]

_PROFILE = gen.Profile(max_entries=3, max_synsets=4, max_senses=3, max_forms=2,
                       max_attach=2, max_relations=3, requires=False)
_SEL_ATOMS = list(CODES) + ['E', 'W']
_FULL = [['E', 'W'], ['W', 'E'], list(CODES), list(reversed(CODES)), ['E', 'W', 'W404', 'E101']]

_inv_cache: dict = {}


def _inv() -> dict:
    if 'inv' not in _inv_cache:
        try:
            _inv_cache['inv'] = parse_constants_rst(
                env.REPO_ROOT / 'docs' / 'api' / 'wn.constants.rst')
        except (DocsError, OSError) as exc:
            raise env.HarnessError(f'cannot parse the documented relation inventories: {exc}')
    return _inv_cache['inv']


# ---------------------------------------------------------------------------
# model helpers (pure functions of the model; no randomness)

def _entries(lex):
    return lex.setdefault('entries', [])


def _synsets(lex):
    return lex.setdefault('synsets', [])


def _senses(lex):
    return [s for e in lex.get('entries', []) for s in e.get('senses', [])]


def _forms(lex):
    return [f for e in lex.get('entries', []) for f in e.get('forms', [])]


def _used_strings(lex) -> set:
    used = {lex['id']}
    for e in lex.get('entries', []):
        used.add(e['id'])
        for f in e.get('forms', []):
            if f.get('id'):
                used.add(f['id'])
        for s in e.get('senses', []):
            used.add(s['id'])
            used.add(s['synset'])
            used.update(r['target'] for r in s.get('relations', []))
            used.update(s.get('subcat', []))
        for fr in e.get('frames', []):
            used.update(fr.get('senses', []))
    for ss in lex.get('synsets', []):
        used.add(ss['id'])
        used.update(r['target'] for r in ss.get('relations', []))
        used.update(ss.get('members', []))
        used.update(d['sourceSense'] for d in ss.get('definitions', []) if d.get('sourceSense'))
    for fr in lex.get('frames', []):
        if fr.get('id'):
            used.add(fr['id'])
    return used


def _fresh(lex, stem: str) -> str:
    used = _used_strings(lex)
    k = 0
    while f'{lex["id"]}-{stem}{k}' in used:
        k += 1
    return f'{lex["id"]}-{stem}{k}'


def _new_synset(lex, pos='n'):
    ss = {'id': _fresh(lex, 'xss'), 'ili': '', 'partOfSpeech': pos, 'meta': None}
    _synsets(lex).append(ss)
    return ss


def _new_entry(lex):
    eid = _fresh(lex, 'xe')
    e = {'id': eid, 'lemma': {'writtenForm': 'w ' + eid, 'partOfSpeech': 'n'}, 'meta': None}
    _entries(lex).append(e)
    return e


def _new_sense(lex, entry, synset_id):
    s = {'id': _fresh(lex, 'xs'), 'synset': synset_id, 'meta': None}
    entry.setdefault('senses', []).append(s)
    return s


def _need_synsets(lex, n):
    while len(_synsets(lex)) < n:
        _new_synset(lex)
    return _synsets(lex)


def _need_entries(lex, n):
    while len(_entries(lex)) < n:
        _new_entry(lex)
    return _entries(lex)


def _need_senses(lex, n):
    while len(_senses(lex)) < n:
        ss = _need_synsets(lex, 1)[0]
        _new_sense(lex, _new_entry(lex), ss['id'])
    return _senses(lex)


def _two(seq, p, q):
    """Two distinct positions of *seq* (len >= 2)."""
    n = len(seq)
    i = p % n
    j = (i + 1 + q % (n - 1)) % n
    return seq[i], seq[j]


def _rel(target, rel_type, dctype=None):
    return {'target': target, 'relType': rel_type, 'meta': {'type': dctype} if dctype else None}


def _add_rel(x, r):
    x.setdefault('relations', []).append(r)


def _rename_refs(lex, old, new):
    if old == new:
        return
    for e in lex.get('entries', []):
        for s in e.get('senses', []):
            if s['synset'] == old:
                s['synset'] = new
            for r in s.get('relations', []):
                if r['target'] == old:
                    r['target'] = new
            if 'subcat' in s:
                s['subcat'] = [new if x == old else x for x in s['subcat']]
        for fr in e.get('frames', []):
            if 'senses' in fr:
                fr['senses'] = [new if x == old else x for x in fr['senses']]
    for ss in lex.get('synsets', []):
        for r in ss.get('relations', []):
            if r['target'] == old:
                r['target'] = new
        if 'members' in ss:
            ss['members'] = [new if x == old else x for x in ss['members']]
        for d in ss.get('definitions', []):
            if d.get('sourceSense') == old:
                d['sourceSense'] = new


def _forget_sense_ids(lex, gone: set):
    """Remove every reference to sense ids that no longer exist."""
    gone = gone - {s['id'] for s in _senses(lex)}
    if not gone:
        return
    for e in lex.get('entries', []):
        for s in e.get('senses', []):
            if 'relations' in s:
                s['relations'] = [r for r in s['relations'] if r['target'] not in gone]
                if not s['relations']:
                    del s['relations']
        for fr in e.get('frames', []):
            if 'senses' in fr:
                fr['senses'] = [x for x in fr['senses'] if x not in gone]
                if not fr['senses']:
                    del fr['senses']
    for ss in lex.get('synsets', []):
        if 'members' in ss:
            ss['members'] = [x for x in ss['members'] if x not in gone]
            if not ss['members']:
                del ss['members']
        for d in ss.get('definitions', []):
            if d.get('sourceSense') in gone:
                del d['sourceSense']


def _drop_member(lex, sense_id):
    for ss in lex.get('synsets', []):
        if sense_id in ss.get('members', []):
            ss['members'] = [x for x in ss['members'] if x != sense_id]
            if not ss['members']:
                del ss['members']


def _set_id(lex, elem, new):
    old = elem.get('id')
    elem['id'] = new
    if old:
        _rename_refs(lex, old, new)


# ---------------------------------------------------------------------------
# breakage operators: f(lex, v, p, q, version); v = variant, p/q = positions

def op_dup_entry_id(lex, v, p, q, ver):
    a, b = _two(_need_entries(lex, 2), p, q)
    b['id'] = a['id']


def op_dup_sense_id(lex, v, p, q, ver):
    a, b = _two(_need_senses(lex, 2), p, q)
    _set_id(lex, b, a['id'])


def op_dup_synset_id(lex, v, p, q, ver):
    a, b = _two(_need_synsets(lex, 2), p, q)
    _set_id(lex, b, a['id'])


def _need_forms(lex, n):
    while len(_forms(lex)) < n:
        e = _need_entries(lex, 1)[0]
        e.setdefault('forms', []).append({'writtenForm': 'f ' + _fresh(lex, 'xf')})
    return _forms(lex)


def _need_frames(lex, n):
    frames = lex.setdefault('frames', [])
    while len(frames) < n:
        i = _fresh(lex, 'xfr')
        frames.append({'id': i, 'subcategorizationFrame': 'frame ' + i})
    return frames


def op_dup_form_id(lex, v, p, q, ver):
    if ver == '1.0':
        return
    a, b = _two(_need_forms(lex, 2), p, q)
    if not a.get('id'):
        a['id'] = _fresh(lex, 'xf')
    b['id'] = a['id']


def op_dup_frame_id(lex, v, p, q, ver):
    if ver == '1.0':
        return
    a, b = _two(_need_frames(lex, 2), p, q)
    if not a.get('id'):
        a['id'] = _fresh(lex, 'xfr')
    _set_id(lex, b, a['id'])


def op_dup_cross_kind(lex, v, p, q, ver):
    """An id of one kind reused for an entity of another kind."""
    kinds = ['lexicon', 'entry', 'sense', 'synset']
    if ver != '1.0':
        kinds += ['form', 'frame']

    def elems(kind):
        if kind == 'lexicon':
            return [lex]
        if kind == 'entry':
            return _need_entries(lex, 1)
        if kind == 'sense':
            return _need_senses(lex, 1)
        if kind == 'synset':
            return _need_synsets(lex, 1)
        if kind == 'form':
            return _need_forms(lex, 1)
        return _need_frames(lex, 1)

    dst_kinds = kinds[1:]
    dst_kind = dst_kinds[v % len(dst_kinds)]
    src_kinds = [k for k in kinds if k != dst_kind]
    src_kind = src_kinds[(v // len(dst_kinds)) % len(src_kinds)]
    src = elems(src_kind)[p % len(elems(src_kind))]
    if not src.get('id'):
        src['id'] = _fresh(lex, 'xid')
    dst = elems(dst_kind)[q % len(elems(dst_kind))]
    if dst_kind == 'entry':
        dst['id'] = src['id']
    else:
        _set_id(lex, dst, src['id'])


def op_dangling_synset(lex, v, p, q, ver):
    ss = _need_senses(lex, 1)
    s = ss[p % len(ss)]
    _drop_member(lex, s['id'])
    s['synset'] = _fresh(lex, 'missing')


_SENSE_T = ['antonym', 'also', 'derivation', 'other', 'pertainym', 'similar', 'zz_rel', 'hypernym']
_SYNSET_T = ['hypernym', 'instance_hypernym', 'also', 'similar', 'mero_part', 'zz_rel',
             'hyponym', 'attribute']


def op_dangling_sense_rel(lex, v, p, q, ver):
    ss = _need_senses(lex, 1)
    s = ss[p % len(ss)]
    if v % 3 == 2:      # an id that exists, but is an entry
        es = _entries(lex)
        target = es[q % len(es)]['id']
    else:
        target = _fresh(lex, 'missing')
    _add_rel(s, _rel(target, _SENSE_T[q % len(_SENSE_T)]))


def op_dangling_synset_rel(lex, v, p, q, ver):
    sss = _need_synsets(lex, 1)
    ss = sss[p % len(sss)]
    if v % 3 == 2:      # a sense id is not a valid synset relation target
        senses = _need_senses(lex, 1)
        target = senses[q % len(senses)]['id']
    else:
        target = _fresh(lex, 'missing')
    # v == 0: hypernym (the taxonomy check has to cope with the missing target)
    t = 'hypernym' if v % 3 == 0 else _SYNSET_T[q % len(_SYNSET_T)]
    _add_rel(ss, _rel(target, t))


def op_empty_synset(lex, v, p, q, ver):
    if v % 2 == 0:
        _new_synset(lex, 'nvar'[p % 4])
        return
    victim, other = _two(_need_synsets(lex, 2), p, q)
    if victim['id'] == other['id']:
        return
    for s in _senses(lex):
        if s['synset'] == victim['id']:
            s['synset'] = other['id']
    victim.pop('members', None)


def op_repeat_ili(lex, v, p, q, ver):
    a, b = _two(_need_synsets(lex, 2), p, q)
    ili = a['ili'] if a.get('ili') and a['ili'] != 'in' else f'i7{q % 3}'
    a['ili'] = b['ili'] = ili


def op_proposed_ili_no_def(lex, v, p, q, ver):
    sss = _need_synsets(lex, 1)
    ss = sss[p % len(sss)]
    ss['ili'] = 'in'
    if v % 3 == 2:
        ss['ili_definition'] = {'text': '', 'meta': None}
    else:
        ss.pop('ili_definition', None)


def op_spurious_ili_def(lex, v, p, q, ver):
    sss = _need_synsets(lex, 1)
    ss = sss[p % len(sss)]
    if not ss.get('ili') or ss['ili'] == 'in':
        ss['ili'] = f'i9{q % 7}'
    ss['ili_definition'] = {'text': '' if v % 3 == 2 else 'spurious gloss', 'meta': None}


# blank = empty or white space only (load() keeps the latter under xml:space="preserve")
_BLANKS = ('', ' ', '', ' \n\t ')


def _blank_item(k, ver):
    """A blank text; white space only needs xml:space="preserve" (1.3) to survive load()."""
    t = _BLANKS[k % 4]
    if t and ver == '1.3':
        return {'text': t, 'space': 'preserve'}
    return {'text': ''}


def op_blank_definition(lex, v, p, q, ver):
    sss = _need_synsets(lex, 1)
    ss = sss[p % len(sss)]
    defs = ss.setdefault('definitions', [])
    if v % 2 == 0 or not defs:
        defs.append(dict(_blank_item(q, ver), meta=None))
    else:
        defs[q % len(defs)].update(_blank_item(q // 2, ver))


def op_blank_example(lex, v, p, q, ver):
    if v % 3 == 2:      # negative for W306: a blank *sense* example
        senses = _need_senses(lex, 1)
        senses[p % len(senses)].setdefault('examples', []).append({'text': '', 'meta': None})
        return
    sss = _need_synsets(lex, 1)
    ss = sss[p % len(sss)]
    exs = ss.setdefault('examples', [])
    if v % 3 == 0 or not exs:
        exs.append(dict(_blank_item(q, ver), meta=None))
    else:
        exs[q % len(exs)].update(_blank_item(q // 2, ver))


def op_repeat_definition(lex, v, p, q, ver):
    a, b = _two(_need_synsets(lex, 2), p, q)
    defs = a.setdefault('definitions', [])
    if v % 4 == 0 or not defs:
        d = {'text': 'common gloss', 'meta': None}
        defs.append(d)
    else:
        d = defs[q % len(defs)]
    d2 = copy.deepcopy(d)
    if v % 4 == 2:      # same text in another language
        d2['language'] = 'ja' if d.get('language') != 'ja' else 'es'
    if v % 4 == 3:      # repeated inside the synset only
        defs.append(d2)
    else:
        b.setdefault('definitions', []).append(d2)


def op_invalid_reltype(lex, v, p, q, ver):
    k = v % 4
    if k == 0:
        a, b = _two(_need_senses(lex, 2), p, q)
        types = ['hypernym', 'zz_rel', 'meronym', 'eq_synonym', 'instance_hyponym']
        _add_rel(a, _rel(b['id'], types[q % len(types)]))
    elif k == 1:
        senses = _need_senses(lex, 1)
        sss = _need_synsets(lex, 1)
        types = ['antonym', 'derivation', 'similar', 'hypernym', 'zz_rel', 'also']
        _add_rel(senses[p % len(senses)], _rel(sss[q % len(sss)]['id'], types[q % len(types)]))
    elif k == 2:
        a, b = _two(_need_synsets(lex, 2), p, q)
        types = ['derivation', 'pertainym', 'participle', 'zz_rel', 'simple_aspect_ip']
        _add_rel(a, _rel(b['id'], types[q % len(types)]))
    else:               # negatives: types valid for the kind
        senses = _need_senses(lex, 1)
        sss = _need_synsets(lex, 2)
        _add_rel(senses[p % len(senses)], _rel(sss[q % len(sss)]['id'],
                                               ['exemplifies', 'domain_region'][q % 2]))
        a, b = _two(sss, p, q)
        _add_rel(a, _rel(b['id'], ['antonym', 'ir_synonym', 'feminine'][q % 3]))


def op_redundant_relation(lex, v, p, q, ver):
    if p % 2 == 0:
        xs = _need_synsets(lex, 2)
    else:
        xs = _need_senses(lex, 2)
    x, y = _two(xs, p // 2, q)
    rels = x.setdefault('relations', [])
    if not rels:
        rels.append(_rel(y['id'], 'also'))
    r = rels[q % len(rels)]
    r2 = copy.deepcopy(r)
    k = v % 5
    if k == 4:          # two redundant groups on one (source, type, target): one without
        #                  dc:type, one with it - each relation twice
        r['meta'] = None
        r2['meta'] = None
        for _ in range(2):
            r3 = copy.deepcopy(r)
            r3['meta'] = {'type': 'T'}
            rels.append(r3)
    elif k == 1:        # both with the same dc:type, other metadata different
        r['meta'] = {'type': 'T', 'note': 'first'}
        r2['meta'] = {'type': 'T'}
    elif k == 2:        # different dc:type
        r['meta'] = {'type': 'T1'}
        r2['meta'] = {'type': 'T2'}
    elif k == 3:        # one with, one without
        r['meta'] = None
        r2['meta'] = {'type': 'T'}
    rels.append(r2)


def op_missing_reverse(lex, v, p, q, ver):
    if v % 2 == 0:
        sss = _need_synsets(lex, 1)
        x = sss[p % len(sss)]
        if v % 4 == 0:
            y = _new_synset(lex, x.get('partOfSpeech') or 'n')
            t = 'hypernym'
        else:
            _need_synsets(lex, 2)
            x, y = _two(_synsets(lex), p, q)
            t = ['hypernym', 'mero_part', 'similar', 'attribute', 'instance_hyponym', 'also',
                 'causes', 'antonym'][q % 8]
        _add_rel(x, _rel(y['id'], t))
    else:
        x, y = _two(_need_senses(lex, 2), p, q)
        t = ['antonym', 'derivation', 'similar', 'has_domain_topic', 'also', 'pertainym',
             'feminine'][q % 7]
        _add_rel(x, _rel(y['id'], t))


def op_reciprocate(lex, v, p, q, ver):
    """Declare the reverse of an existing relation (near-miss for W404)."""
    rev = _inv()['reverse']
    cands = []
    for kind, xs in (('sense', _senses(lex)), ('synset', _synsets(lex))):
        ids = {x['id'] for x in xs}
        for x in xs:
            for r in x.get('relations', []):
                if r['relType'] in rev and r['target'] in ids:
                    cands.append((xs, x, r))
    if not cands:
        a, b = _two(_need_synsets(lex, 2), p, q)
        r = _rel(b['id'], 'hypernym')
        _add_rel(a, r)
        cands = [(_synsets(lex), a, r)]
    xs, x, r = cands[p % len(cands)]
    targets = [y for y in xs if y['id'] == r['target']]
    y = targets[q % len(targets)]
    back = _rel(x['id'], rev[r['relType']])
    if not any(z['target'] == back['target'] and z['relType'] == back['relType']
               for z in y.get('relations', [])):
        _add_rel(y, back)


def op_hypernym_other_pos(lex, v, p, q, ver):
    k = v % 6
    if k == 0:
        sss = _need_synsets(lex, 1)
        a = sss[p % len(sss)]
        if not a.get('partOfSpeech'):
            a['partOfSpeech'] = 'n'
        b = _new_synset(lex, 'v' if a['partOfSpeech'] != 'v' else 'n')
        _add_rel(a, _rel(b['id'], 'hypernym'))
        return
    a, b = _two(_need_synsets(lex, 2), p, q)
    pa = a.get('partOfSpeech') or 'n'
    other = 'v' if pa != 'v' else 'a'
    t = 'hypernym'
    if k in (1, 2):
        a['partOfSpeech'], b['partOfSpeech'] = pa, other
    elif k == 3:
        a['partOfSpeech'], b['partOfSpeech'] = pa, other
        t = 'instance_hypernym'
    elif k == 4:        # negative: same part of speech
        a['partOfSpeech'] = b['partOfSpeech'] = pa
    else:               # undecided: hypernym without part of speech
        a['partOfSpeech'] = pa
        b.pop('partOfSpeech', None)
    _add_rel(a, _rel(b['id'], t))
    if q % 2:
        _add_rel(b, _rel(a['id'], 'hyponym' if t == 'hypernym' else 'instance_hyponym'))


def op_self_loop(lex, v, p, q, ver):
    if v % 2 == 0:
        xs = _need_synsets(lex, 1)
        t = ['hypernym', 'similar', 'also', 'zz_rel'][q % 4]
    else:
        xs = _need_senses(lex, 1)
        t = ['also', 'antonym', 'similar', 'zz_rel'][q % 4]
    x = xs[p % len(xs)]
    _add_rel(x, _rel(x['id'], t))


def op_entry_without_senses(lex, v, p, q, ver):
    if v % 2 == 0:
        _new_entry(lex)
        return
    es = _need_entries(lex, 1)
    e = es[p % len(es)]
    gone = {s['id'] for s in e.get('senses', [])}
    e.pop('senses', None)
    e.pop('frames', None)
    _forget_sense_ids(lex, gone)


def op_redundant_sense(lex, v, p, q, ver):
    _need_senses(lex, 1)
    es = [e for e in _entries(lex) if e.get('senses')]
    e = es[p % len(es)]
    s0 = e['senses'][q % len(e['senses'])]
    _new_sense(lex, e, s0['synset'])


def op_redundant_entry(lex, v, p, q, ver):
    _need_senses(lex, 1)
    es = [e for e in _entries(lex) if e.get('senses')]
    e = es[p % len(es)]
    k = v % 4
    e2 = {'id': e['id'] if k == 3 else _fresh(lex, 'xe'),
          'lemma': copy.deepcopy(e['lemma']), 'meta': None}
    if k == 2:          # same written form, other part of speech
        e2['lemma']['partOfSpeech'] = 'v' if e['lemma']['partOfSpeech'] != 'v' else 'n'
    _entries(lex).append(e2)
    s0 = e['senses'][q % len(e['senses'])]
    _new_sense(lex, e2, s0['synset'])


OPS = {
    'dup-entry-id': op_dup_entry_id,
    'dup-sense-id': op_dup_sense_id,
    'dup-synset-id': op_dup_synset_id,
    'dup-form-id': op_dup_form_id,
    'dup-frame-id': op_dup_frame_id,
    'dup-cross-kind': op_dup_cross_kind,
    'dangling-synset': op_dangling_synset,
    'dangling-sense-relation': op_dangling_sense_rel,
    'dangling-synset-relation': op_dangling_synset_rel,
    'empty-synset': op_empty_synset,
    'repeat-ili': op_repeat_ili,
    'proposed-ili-without-definition': op_proposed_ili_no_def,
    'spurious-ili-definition': op_spurious_ili_def,
    'blank-definition': op_blank_definition,
    'blank-example': op_blank_example,
    'repeat-definition': op_repeat_definition,
    'invalid-relation-type': op_invalid_reltype,
    'redundant-relation': op_redundant_relation,
    'missing-reverse': op_missing_reverse,
    'reciprocate': op_reciprocate,
    'hypernym-other-pos': op_hypernym_other_pos,
    'self-loop': op_self_loop,
    'entry-without-senses': op_entry_without_senses,
    'redundant-sense': op_redundant_sense,
    'redundant-entry': op_redundant_entry,
}
OPNAMES = list(OPS)
_V11_OPS = {'dup-form-id', 'dup-frame-id'}
# the code each operator's variant 0 is certain to trigger (stratified family)
_TARGET = {
    'dup-entry-id': 'E101', 'dup-sense-id': 'E101', 'dup-synset-id': 'E101',
    'dup-form-id': 'E101', 'dup-frame-id': 'E101', 'dup-cross-kind': 'E101',
    'dangling-synset': 'E204', 'dangling-sense-relation': 'E401',
    'dangling-synset-relation': 'E401', 'empty-synset': 'W301', 'repeat-ili': 'W302',
    'proposed-ili-without-definition': 'W303', 'spurious-ili-definition': 'W304',
    'blank-definition': 'W305', 'blank-example': 'W306', 'repeat-definition': 'W307',
    'invalid-relation-type': 'W402', 'redundant-relation': 'W403', 'missing-reverse': 'W404',
    'reciprocate': None, 'hypernym-other-pos': 'W501', 'self-loop': 'W502',
    'entry-without-senses': 'W201', 'redundant-sense': 'W202', 'redundant-entry': 'W203',
}


def _broken(case) -> dict:
    """The resource of *case* with its operators applied (a new object)."""
    res = copy.deepcopy(case['resource'])
    lex = res['lexicons'][0]
    ver = res['lmf_version']
    for op in case['ops']:
        OPS[op['op']](lex, op['v'], op['p'], op['q'], ver)
    for key in ('entries', 'synsets', 'frames'):
        if key in lex and not lex[key]:
            del lex[key]
    return res


# ---------------------------------------------------------------------------
# generation

def _op(name=None, v=None):
    n = st.integers(0, 999)
    return st.fixed_dictionaries({
        'op': st.just(name) if name else st.sampled_from(OPNAMES),
        'v': st.just(v) if v is not None else st.integers(0, 23),
        'p': n, 'q': n})


@st.composite
def _cases(draw, tier, force=None):
    # the small decisive draws come first: Hypothesis zero-extends the tail of
    # an example once its size budget is spent, so whatever is drawn after the
    # (large) lexicon degenerates to "first choice" far too often
    versions = ['1.1', '1.2', '1.3'] if force in _V11_OPS else list(gen.VERSIONS)
    version = draw(st.sampled_from(versions))
    cli = draw(st.sampled_from([False] * 9 + [True]))
    if force:
        ops = [draw(_op(force))] + draw(st.lists(_op(), max_size=2))
    else:
        nops = draw(st.sampled_from([0, 1, 1, 2, 2, 3, 3, 4]))
        ops = draw(st.lists(_op(), min_size=nops, max_size=nops))
    nsel = 3 if tier == 'quick' else 4
    selects = [draw(st.sampled_from(_FULL))]
    for k in range(nsel - 1):
        selects.append(draw(st.lists(st.sampled_from(_SEL_ATOMS), min_size=1 if k else 0,
                                     max_size=5)))
    lex = draw(gen.lexicons(_PROFILE, version=version))
    res = {'lmf_version': version, 'lexicons': [lex]}
    return {'resource': res, 'ops': ops, 'selects': selects, 'style': draw(xmlw.styles()),
            'cli': cli}


def _strategy(tier):
    return _cases(tier)


def _enumerate_ops(tier, shard, nshards):
    """Every operator x variant index on generated lexicons.  Repetition 0 is
    Hypothesis' minimal lexicon with variant 0 of the operator alone, so that the
    operator's target code is hit with certainty; repetition k > 0 is a random
    lexicon, variant k, plus up to two random operators."""
    from hypothesis import HealthCheck, Phase, given, seed, settings
    vs = int(os.environ.get('VERIF_SEED', '1') or 1)
    reps = 6 if tier == 'quick' else 12
    cases = []
    for i, name in enumerate(OPNAMES):
        if i % nshards != shard:
            continue
        mine: list = []

        @seed(vs * 1000 + i)
        @settings(max_examples=reps, database=None, deadline=None, phases=[Phase.generate],
                  suppress_health_check=list(HealthCheck))
        @given(_cases(tier, force=name))
        def collect(case):
            mine.append(case)
        collect()
        for rep, case in enumerate(mine[:reps]):
            case['ops'][0]['v'] = rep
            if rep == 0:
                case['ops'] = case['ops'][:1]
                target = _TARGET[name]      # generator self-test
                if target and not must_keys(reference(_broken(case)['lexicons'][0],
                                                      _inv())[target]):
                    raise env.HarnessError(f'operator {name} variant 0 did not produce {target}')
            cases.append(case)
    return cases


# ---------------------------------------------------------------------------
# classification

def _selected(sel) -> set:
    s = set(sel)
    return {c for c in CODES if c in s or c[0] in s}


def _classify(case):
    res = _broken(case)
    ref = reference(res['lexicons'][0], _inv())
    tags = ['v' + res['lmf_version'], f'n-ops:{len(case["ops"])}']
    for op in case['ops']:
        tags.append('op:' + op['op'])
    hit = False
    for code in CODES:
        if must_keys(ref[code]):
            tags.append('hit:' + code)
            hit = True
        elif allowed_keys(ref[code]):
            tags.append('undecided-only:' + code)
        else:
            tags.append('clean:' + code)
        if allowed_keys(ref[code]) - must_keys(ref[code]):
            tags.append('undecided:' + code)
    for sel in case['selects'][1:]:
        n = len(_selected(sel))
        tags.append('select:none' if n == 0 else 'select:one' if n == 1 else
                    'select:all' if n == 18 else 'select:some')
        if 'E' in sel or 'W' in sel:
            tags.append('select:category')
    if case.get('cli'):
        tags.append('cli')
        want = _selected(case['selects'][-1])
        if any(must_keys(ref[c]) for c in want):
            tags.append('cli:expect-nonzero')
        elif not any(allowed_keys(ref[c]) for c in want):
            tags.append('cli:expect-0')
        else:
            tags.append('cli:undecided')
    if must_keys(ref['E204']) or must_keys(ref['E401']):
        tags.append('add-must-reject')
    return bool(case['ops']) and hit, sorted(set(tags))


# ---------------------------------------------------------------------------
# oracle

def _run_validate(lex, select, out):
    import wn.validate
    try:
        return wn.validate.validate(lex, select=select, progress_handler=None)
    except Exception as exc:  # noqa: BLE001 - the property: validate never raises
        where = _wn_frame(exc)
        if where is None:
            raise
        _push(out, Disc(f'exception:{type(exc).__name__}', where, 'a report',
                        f'{type(exc).__name__}: {exc}'[:300], note=f'select={list(select)}'))
        return None


def _wn_frame(exc):
    """'wn/<file>:<function>' of the innermost traceback frame inside the wn package."""
    root = str(env.REPO_ROOT / 'wn') + os.sep
    tb, where = exc.__traceback__, None
    while tb is not None:
        fn = tb.tb_frame.f_code.co_filename
        if fn.startswith(root):
            where = f'wn/{os.path.basename(fn)}:{tb.tb_frame.f_code.co_name}'
        tb = tb.tb_next
    return where


def _push(out, d: Disc):
    for o in out:
        if (o.kind, o.path, o.expected, o.got) == (d.kind, d.path, d.expected, d.got):
            return
    out.append(d)


def _check_report(rep, select, ref, out):
    if not isinstance(rep, dict):
        _push(out, Disc('report-not-a-dict', f'select={list(select)}', 'dict', type(rep).__name__))
        return
    want = _selected(select)
    if set(rep) != want:
        _push(out, Disc('report-keys-differ-from-selection', 'select',
                        sorted(want), sorted(map(str, rep)), note=f'select={list(select)}'))
    for code in CODES:
        if code not in rep:
            continue
        entry = rep[code]
        if not (isinstance(entry, dict) and isinstance(entry.get('message'), str)
                and entry['message'] and isinstance(entry.get('items'), dict)):
            _push(out, Disc(f'{code}-entry-shape', code, "{'message': str, 'items': dict}", entry))
            continue
        items = entry['items']
        got = set(items)
        must, allowed = must_keys(ref[code]), allowed_keys(ref[code])
        missing = sorted(must - got, key=repr)
        spurious = sorted(got - allowed, key=repr)
        if missing:
            _push(out, Disc(f'{code}-missed-item', code, missing[:8], sorted(got, key=repr)[:12]))
        if spurious:
            _push(out, Disc(f'{code}-spurious-item', code,
                            {'must': sorted(must, key=repr)[:12],
                             'may': sorted(allowed - must, key=repr)[:12]},
                            {k: items[k] for k in spurious[:8]}))
        for k in sorted(got & allowed, key=repr):
            c = items[k]
            if not isinstance(c, dict):
                _push(out, Disc(f'{code}-context-not-a-dict', code, 'dict', c))
            elif not context_ok(ref[code], k, c):
                _push(out, Disc(f'{code}-context-describes-no-offence', code,
                                [o.fields for o in ref[code] if o.key == k][:6], {k: c}))


def _cli(path, select, workdir):
    e = dict(os.environ)
    e['PYTHONPATH'] = str(env.REPO_ROOT) + os.pathsep + e.get('PYTHONPATH', '')
    e['PYTHONIOENCODING'] = 'utf-8'
    p = subprocess.run([sys.executable, '-m', 'wn', '-d', str(workdir), 'validate',
                        '--select', ','.join(select), str(path)],
                       env=e, cwd=str(workdir), stdin=subprocess.DEVNULL,
                       stdout=subprocess.PIPE, stderr=subprocess.PIPE, timeout=120)
    return p.returncode, (p.stderr or b'').decode('utf-8', 'replace')[-400:]


def oracle(case):
    import wn
    import wn.lmf
    inv = _inv()
    res = _broken(case)
    work = env.new_dir('c18')
    path = xmlw.write(res, work / 'in.xml', case.get('style'))
    loaded = wn.lmf.load(path, progress_handler=None)
    if len(loaded['lexicons']) != 1 or loaded['lexicons'][0].get('extends'):
        raise env.HarnessError('C18 generator: expected exactly one non-extension lexicon')
    lex = loaded['lexicons'][0]
    ref = reference(lex, inv)
    out: list[Disc] = []

    # every check on its own (a raising check must not mask the others) ...
    single = {}
    for code in CODES:
        rep = _run_validate(lex, [code], out)
        if rep is not None:
            _check_report(rep, [code], ref, out)
            if isinstance(rep, dict) and isinstance(rep.get(code), dict):
                single[code] = rep[code].get('items')
    # ... and the drawn selections (the first is a full battery)
    reports = []
    for sel in case['selects']:
        rep = _run_validate(lex, sel, out)
        reports.append(rep)
        if rep is not None:
            _check_report(rep, sel, ref, out)

    # E204 / E401 reported -> add rejects the lexicon and leaves the database alone
    listed = [c for c in ('E204', 'E401') if single.get(c) or must_keys(ref[c])]
    if listed:
        db = env.fresh_db()
        wn.lexicons()
        before = dumps.raw_dump(db.file)
        raised = None
        try:
            wn.add_lexical_resource(loaded, progress_handler=None)
        except Exception as exc:  # noqa: BLE001 - any exception is a rejection
            raised = exc
        after = dumps.raw_dump(db.file)
        if raised is None:
            _push(out, Disc('add-accepts-lexicon-with-missing-target', '+'.join(listed),
                            'add_lexical_resource raises',
                            {c: single.get(c) for c in listed}))
        else:
            for p, e, g in diff(before, after)[:5]:
                _push(out, Disc('rejected-add-changes-database', p, e, g,
                                note=f'{type(raised).__name__}: {raised}'[:200]))
            left = [f'{x.id}:{x.version}' for x in wn.lexicons()]
            if left:
                _push(out, Disc('rejected-add-leaves-lexicon-visible', 'wn.lexicons()', [], left))
        # the same lexicon is rejected whatever else is installed or supplied with it: here it
        # follows, in one resource, an extension of an installed lexicon that declares as
        # external exactly the ids the broken lexicon refers to without defining them
        lexdoc = loaded['lexicons'][0]
        own_ss = {ss['id'] for ss in lexdoc.get('synsets', [])}
        own_s = {s_['id'] for e_ in lexdoc.get('entries', []) for s_ in e_.get('senses', [])}
        dangling_ss = set()
        for e_ in lexdoc.get('entries', []):
            for s_ in e_.get('senses', []):
                if s_['synset'] not in own_ss:
                    dangling_ss.add(s_['synset'])
        for ss in lexdoc.get('synsets', []):
            for r in ss.get('relations', []):
                if r['target'] not in own_ss and r['target'] not in own_s:
                    dangling_ss.add(r['target'])
        if dangling_ss:
            base = {'id': 'zbase', 'version': '1', 'label': 'b', 'language': 'en', 'email': 'e',
                    'license': 'l', 'meta': None,
                    'synsets': [{'id': i, 'ili': '', 'partOfSpeech': 'n', 'meta': None}
                                for i in sorted(dangling_ss)]}
            ext = {'id': 'zext', 'version': '1', 'label': 'x', 'language': 'en', 'email': 'e',
                   'license': 'l', 'meta': None, 'extends': {'id': 'zbase', 'version': '1'},
                   'synsets': [{'id': i, 'external': True} for i in sorted(dangling_ss)]}
            db = env.fresh_db()
            wn.add_lexical_resource({'lmf_version': '1.1', 'lexicons': [base]},
                                    progress_handler=None)
            before = dumps.raw_dump(db.file)
            import copy as _copy
            res2 = {'lmf_version': '1.1', 'lexicons': [ext, _copy.deepcopy(lexdoc)]}
            try:
                wn.add_lexical_resource(res2, progress_handler=None)
            except Exception:  # noqa: BLE001
                for p, e, g in diff(before, dumps.raw_dump(db.file))[:5]:
                    _push(out, Disc('rejected-add-changes-database', f'after-extension{p}', e, g))
            else:
                _push(out, Disc('add-accepts-lexicon-with-missing-target',
                                '+'.join(listed) + ' (after an extension declaring the ids external)',
                                'add_lexical_resource raises', sorted(dangling_ss)))

    # command line: exit status 0 iff every selected check is empty
    if case.get('cli'):
        sel = case['selects'][-1]
        rc, err = _cli(path, sel, work)
        want = _selected(sel)
        some_must = sorted(c for c in want if must_keys(ref[c]))
        none_allowed = not any(allowed_keys(ref[c]) for c in want)
        if some_must and rc == 0:
            _push(out, Disc('cli-exit-0-with-nonempty-check', 'python -m wn validate',
                            f'non-zero ({some_must} non-empty)', rc, note=f'select={sel}'))
        if none_allowed and rc != 0:
            _push(out, Disc('cli-exit-nonzero-with-all-checks-empty', 'python -m wn validate',
                            0, rc, note=f'select={sel} stderr={err}'))
        rep = reports[-1]
        if isinstance(rep, dict) and all(isinstance(v, dict) for v in rep.values()):
            api_nonempty = any(v.get('items') for v in rep.values())
            if (rc == 0) == api_nonempty:
                _push(out, Disc('cli-exit-status-disagrees-with-report', 'python -m wn validate',
                                'non-zero' if api_nonempty else 0, rc,
                                note=f'select={sel} stderr={err}'))
    return out


def oracle_constants(case):
    """REVERSE_RELATIONS is an involution; code inventories equal the documented ones."""
    import wn.constants as C
    inv = _inv()
    out = []
    rev = C.REVERSE_RELATIONS
    for k, v in sorted(rev.items()):
        if rev.get(v) != k:
            out.append(Disc('reverse-relations-not-an-involution', k, k, rev.get(v),
                            note=f'{k} -> {v} -> {rev.get(v)}'))
    doc = inv['reverse']
    for k, v in sorted(doc.items()):
        if doc.get(v) != k:
            raise env.HarnessError(f'documented REVERSE_RELATIONS is not an involution at {k}')
    for k in sorted((set(rev) | set(doc)) - DISPUTED_REVERSE):
        if rev.get(k) != doc.get(k):
            out.append(Disc('reverse-relation-differs-from-documentation', k,
                            doc.get(k), rev.get(k)))
    for name, key in (('SENSE_RELATIONS', 'sense'), ('SYNSET_RELATIONS', 'synset'),
                      ('SENSE_SYNSET_RELATIONS', 'sense_synset')):
        code, docs = set(getattr(C, name)), set(inv[key])
        if code != docs:
            out.append(Disc('relation-inventory-differs-from-documentation', name,
                            sorted(docs - code), sorted(code - docs),
                            note='expected = documented only, got = code only'))
    return out


def _enumerate_constants(tier, shard, nshards):
    return [{'check': 'constants'}] if shard == 0 else []


def _classify_constants(case):
    return True, ['constants']


def _sample(case):
    lex = case['resource']['lexicons'][0]
    return {'lmf_version': case['resource']['lmf_version'],
            'entries': len(lex.get('entries', [])), 'synsets': len(lex.get('synsets', [])),
            'ops': case['ops'], 'selects': case['selects'], 'cli': case['cli']}


def _fp(case):
    return fingerprint([case['resource'], case['ops'], case['selects']])


SUBS = [
    Sub('constants', oracle_constants, _classify_constants, enumerate=_enumerate_constants,
        exhaustive_note='REVERSE_RELATIONS involution; inventories vs docs/api/wn.constants.rst'),
    Sub('operators-stratified', oracle, _classify, enumerate=_enumerate_ops,
        exhaustive_note='every breakage operator x variant index on generated lexicons',
        fingerprint=_fp, sample=_sample,
        require_tags=tuple('hit:' + c for c in CODES) + tuple('op:' + n for n in OPNAMES)),
    Sub('operators-random', oracle, _classify, strategy=_strategy,
        budget={'quick': 150, 'thorough': 400}, fingerprint=_fp, sample=_sample,
        require_tags=('cli:expect-0', 'cli:expect-nonzero', 'add-must-reject',
                      'select:category')),
]
