"""C11 - Relation queries return exactly the declared relations; closures terminate."""

from __future__ import annotations

import itertools

from hypothesis import strategies as st

from .. import env, gen, observe
from ..canon import diff, fingerprint
from ..harness import Disc, Sub
from ..refdb import RefDB
from ..observe import key_of, relkey, _raised

PROPERTY = 'C11'
LEVEL = 'exploration'
RULE = ('Hypothesis draws a base lexicon (2-4 synsets, 2-6 senses) and, half of the time, an '
        'extension adding relations to base entities, with arbitrary synset-synset, sense-sense and '
        'sense-synset relation multigraphs over small pools of relation types (standard and '
        'invented) and dc:type values, so that self-loops, cycles, parallel relations differing in '
        'type or dc:type, and exact duplicates are frequent; a scope (base only, base+extension, '
        'extension only, default mode) and several relation-type argument lists (none, single, '
        'subset, absent type). Oracle: reference database (relation owner and target owner must be '
        'in scope): relation_map key set/values/metadata, relations(*t), get_related(*t), '
        'get_related_synsets(*t), hypernyms/hyponyms/holonyms/meronyms as exact duplicate-free '
        'target sets; closure(*t) = reachable set, each once; relation_paths(*t) yields only simple, '
        'correctly linked paths; generators are consumed under a cap and a wall-clock guard. Sub '
        'closure-expanded: a sparse lexicon expanded over others (C12\'s generator; constructed '
        'chains through two concepts the lexicon lacks; an expand lexicon reusing its synset ids): '
        'closure(*t) == set reachable on the ILI-mapped reference graph, real synsets once each, '
        'placeholders identified by ILI. Non-trivial: some entity has >=2 outgoing relations involving a cycle, a parallel pair or a '
        'duplicate; distinct by (lexicons, scope).')
ASSUMPTIONS = [
    'identifiers are unique across the lexicons of a case',
    'sub relations: expand lexicons are switched off (expand=""); ILI-mediated relations are C12; '
    'sub closure-expanded: how often a placeholder of one ILI is yielded is left open (wn tells '
    'apart placeholders created from sources of different lexicons)',
    'relation_paths: only simplicity/linkage/termination are asserted (C13 asserts completeness)',
]

SS_TYPES = ('hypernym', 'hyponym', 'instance_hypernym', 'mero_part', 'holo_part', 'zz_rel')
S_TYPES = ('antonym', 'also', 'derivation', 'zz_rel')
SSS_TYPES = ('domain_topic', 'other', 'zz_rel')
META_POOL = (None, None, {'type': 'a'}, {'type': 'b'}, {'type': 'a', 'note': 'n'}, {'note': 'n'})

PROFILE = gen.Profile(
    versions=('1.1', '1.3'), special=False, max_entries=3, max_synsets=4, max_senses=2,
    max_forms=0, max_relations=4, meta=False, frames=False, attachments=False,
    rel_types_synset=SS_TYPES, rel_types_sense=S_TYPES, rel_types_sense_synset=SSS_TYPES,
    rel_meta_pool=META_POOL, requires=False, allow_no_pos_synset=False,
    allow_frame_without_id=False)

SCOPES = ['base', 'base+ext', 'ext', 'default']


@st.composite
def _cases(draw):
    v = draw(st.sampled_from(PROFILE.versions))
    b = gen._B(draw, PROFILE, v)
    base = gen.draw_lexicon(b, 'la', '1', n_entries=draw(st.integers(1, 3)),
                            n_synsets=draw(st.integers(2, 4)))
    lexs = [base]
    with_ext = draw(st.booleans())
    if with_ext:
        lexs.append(gen.draw_extension(b, 'lb', '1', base))
    # duplicate a few relations exactly (same type, target, metadata)
    for lx in lexs:
        for e in lx.get('entries', []):
            for s in e.get('senses', []):
                _dup(draw, s)
        for ss in lx.get('synsets', []):
            _dup(draw, ss)
    scope = draw(st.sampled_from(SCOPES if with_ext else ['base', 'default']))
    pool = sorted(set(SS_TYPES) | set(S_TYPES) | set(SSS_TYPES)) + ['no_such_type']
    typesets = [[]]
    for _ in range(draw(st.integers(1, 3))):
        typesets.append(draw(st.lists(st.sampled_from(pool), min_size=1, max_size=3,
                                      unique=True)))
    return {'resource': {'lmf_version': v, 'lexicons': lexs}, 'scope': scope,
            'typesets': typesets}


def _dup(draw, owner: dict) -> None:
    rels = owner.get('relations')
    if rels and draw(st.integers(0, 3)) == 0:
        r = rels[draw(st.integers(0, len(rels) - 1))]
        rels.append({'target': r['target'], 'relType': r['relType'],
                     'meta': dict(r['meta']) if r.get('meta') else None})


def _graph_features(res) -> set:
    tags = set()
    for lx in res['lexicons']:
        owners = [(s['id'], s) for e in lx.get('entries', []) for s in e.get('senses', [])]
        owners += [(ss['id'], ss) for ss in lx.get('synsets', [])]
        edges = {}
        for oid, o in owners:
            rels = o.get('relations', [])
            seen = {}
            for r in rels:
                k = (r['relType'], r['target'], (r.get('meta') or {}).get('type'))
                full = (r['relType'], r['target'], repr(sorted((r.get('meta') or {}).items())))
                if r['target'] == oid:
                    tags.add('self-loop')
                if full in seen.values():
                    tags.add('exact-duplicate')
                seen[len(seen)] = full
                edges.setdefault(oid, set()).add(r['target'])
            tt = [(r['relType'], r['target']) for r in rels]
            if len(set(t for _, t in tt)) < len(tt):
                tags.add('parallel')
            ks = [(r['relType'], r['target'], (r.get('meta') or {}).get('type')) for r in rels]
            if len({(a, b) for a, b, _ in ks}) < len(set(ks)):
                tags.add('parallel-dc-type')
            if len(rels) >= 2:
                tags.add('multi-out')
        # cycle detection (length >= 2) on id graph
        for a in edges:
            for b_ in edges[a]:
                if b_ != a and a in _reach(edges, b_):
                    tags.add('cycle')
    return tags


def _reach(edges, start):
    seen, todo = set(), [start]
    while todo:
        x = todo.pop()
        for y in edges.get(x, ()):
            if y not in seen:
                seen.add(y)
                todo.append(y)
    return seen


def _classify(case):
    tags = _graph_features(case['resource'])
    tags.add('scope:' + case['scope'])
    if len(case['resource']['lexicons']) > 1:
        tags.add('extension')
    nt = 'multi-out' in tags and bool(tags & {'cycle', 'parallel', 'exact-duplicate',
                                              'parallel-dc-type', 'self-loop'})
    return nt, sorted(tags)


# ---------------------------------------------------------------------------

def _ms(keys):
    out = []
    for k in keys:
        if k not in out:
            out.append(k)
    return {'__multiset__': out}


def _take(gen_, cap):
    out = list(itertools.islice(gen_, cap + 1))
    return out


def oracle(case):
    import wn
    res = case['resource']
    env.fresh_db()
    wn.add_lexical_resource(res, progress_handler=None)
    wn.add_lexical_resource(res, progress_handler=None)
    ref = RefDB()
    ref.add_resource(res)
    ref.add_resource(res)
    base = ref.lexs[0].spec
    ext = ref.lexs[1].spec if len(ref.lexs) > 1 else None
    scope = case['scope']
    specs = {'base': [base], 'base+ext': [base, ext], 'ext': [ext], 'default': None}[scope]
    view = ref.view(specs, expand_specs=[])
    w, _ = observe.make_wordnet(' '.join(specs) if specs else None, expand='')
    out: list[Disc] = []
    db = ref

    def check(label, exp, got):
        for p, e, g in diff(exp, got, limit=6):
            out.append(Disc(label.split('(')[0], label + p, e, g))

    # --- senses
    for rs in view.senses():
        s = next((x for x in w.senses() if key_of(x) == rs.key), None)
        if s is None:
            out.append(Disc('sense-missing', rs.key))
            continue
        exp_obs = view.sense_obs(rs)
        check('sense.relation_map', exp_obs['relation_map'], observe.relmap_obs(s))
        for ts in case['typesets']:
            names = set(ts) if ts else None
            rels = view._rels(db.sense_rels, rs, names)
            srels = view._rels(db.sense_synset_rels, rs, names)
            tl = ','.join(ts)
            check(f'sense.relations({tl})',
                  view._by_name([(r.name, r.tgt.key) for r in rels]),
                  {k: [key_of(t) for t in v] for k, v in s.relations(*ts).items()})
            got = [key_of(t) for t in s.get_related(*ts)]
            check(f'sense.get_related({tl})', _ms([r.tgt.key for r in rels]), got)
            tgts = s.get_related_synsets(*ts)
            got = [key_of(t) for t in tgts]
            check(f'sense.get_related_synsets({tl})', _ms([r.tgt.key for r in srels]), got)
            if not ts:
                # second hop: a synset / sense obtained as a relation target answers its own
                # relation queries within the same scope
                for t in tgts:
                    rt = _ref_synset(ref, key_of(t))
                    if rt is not None:
                        check('second-hop:sense.get_related_synsets->synset.relation_map',
                              view.synset_obs(rt)['relation_map'], observe.relmap_obs(t))
                for t in s.get_related():
                    rt = _ref_sense(ref, key_of(t))
                    if rt is not None:
                        check('second-hop:sense.get_related->sense.relation_map',
                              view.sense_obs(rt)['relation_map'], observe.relmap_obs(t))
            _closure_and_paths(view, db.sense_rels, rs, s, names, ts, out)
    # --- synsets
    for rss in view.synsets():
        ss = next((x for x in w.synsets() if key_of(x) == rss.key), None)
        if ss is None:
            out.append(Disc('synset-missing', rss.key))
            continue
        exp_obs = view.synset_obs(rss)
        check('synset.relation_map', exp_obs['relation_map'], observe.relmap_obs(ss))
        for attr in ('hypernyms', 'hyponyms'):
            check(f'synset.{attr}', exp_obs[attr], [key_of(t) for t in getattr(ss, attr)()])
        holo = {'holonym', 'holo_location', 'holo_member', 'holo_part', 'holo_portion',
                'holo_substance'}
        mero = {n.replace('holo', 'mero') for n in holo}
        for attr, names in (('holonyms', holo), ('meronyms', mero)):
            rels = view._rels(db.synset_rels, rss, names)
            check(f'synset.{attr}', _ms([r.tgt.key for r in rels]),
                  [key_of(t) for t in getattr(ss, attr)()])
        for ts in case['typesets']:
            names = set(ts) if ts else None
            rels = view._rels(db.synset_rels, rss, names)
            tl = ','.join(ts)
            check(f'synset.relations({tl})',
                  view._by_name([(r.name, r.tgt.key) for r in rels]),
                  {k: [key_of(t) for t in v] for k, v in ss.relations(*ts).items()})
            tgts = ss.get_related(*ts)
            check(f'synset.get_related({tl})', _ms([r.tgt.key for r in rels]),
                  [key_of(t) for t in tgts])
            if not ts:
                for t in tgts:
                    rt = _ref_synset(ref, key_of(t))
                    if rt is not None:
                        check('second-hop:synset.get_related->synset.relation_map',
                              view.synset_obs(rt)['relation_map'], observe.relmap_obs(t))
            _closure_and_paths(view, db.synset_rels, rss, ss, names, ts, out)
    return out


def _ref_synset(ref, key):
    if not isinstance(key, str):
        return None
    spec, _, sid = key.partition('|')
    L = ref.get(spec)
    return L.synsets.get(sid) if L else None


def _ref_sense(ref, key):
    if not isinstance(key, str):
        return None
    spec, _, sid = key.partition('|')
    L = ref.get(spec)
    return L.senses.get(sid) if L else None


def _closure_and_paths(view, table, rent, ent, names, ts, out):
    def related(x):
        seen = []
        for r in view._rels(table, x, names):
            if r.tgt not in seen:
                seen.append(r.tgt)
        return seen

    # reference closure: everything reachable in >= 1 steps
    reach, todo = [], list(related(rent))
    while todo:
        x = todo.pop(0)
        if x not in reach:
            reach.append(x)
            todo.extend(related(x))
    kind = 'sense' if hasattr(rent, 'entry') else 'synset'
    tl = ','.join(ts)
    got = _take(ent.closure(*ts), len(reach) + 2)
    gk = [key_of(t) for t in got]
    ek = sorted(x.key for x in reach)
    if sorted(gk) != ek:
        out.append(Disc(f'{kind}.closure', f'closure({tl})', ek, sorted(gk), note=rent.key))
    # relation_paths: simple, correctly linked; bounded
    # number of simple paths in a graph of n nodes is bounded by sum of k-permutations
    n = len(reach) + 1
    cap = 1
    f = 1
    for k in range(1, n + 1):
        f *= max(1, n - k + 1)
        cap += f
    paths = _take(ent.relation_paths(*ts), cap)
    if len(paths) > cap:
        out.append(Disc(f'{kind}.relation_paths', f'relation_paths({tl})',
                        f'<= {cap} simple paths', f'> {cap} paths yielded', note=rent.key))
        return
    bykey = {x.key: x for x in reach}
    bykey[rent.key] = rent
    for path in paths:
        keys = [key_of(t) for t in path]
        ok = len(keys) >= 1 and len(set(map(str, keys))) == len(keys) and rent.key not in keys
        prev = rent
        if ok:
            for k in keys:
                nxt = bykey.get(k) if isinstance(k, str) else None
                if nxt is None or nxt not in related(prev):
                    ok = False
                    break
                prev = nxt
        if not ok:
            out.append(Disc(f'{kind}.relation_paths', f'relation_paths({tl})',
                            'simple path along declared in-scope relations', keys,
                            note=rent.key))
            break


# -- closure over the interlingual graph (placeholders are entities too) -----------------

_XTYPES = [('hypernym',), ('hypernym', 'instance_hypernym'), ('hyponym',), ('similar', 'zz_rel')]


@st.composite
def _x_cases(draw):
    """C12's lexicons; half of the time with a constructed chain L-s0 -> gap -> gap [-> L-s?]."""
    from . import c12
    case = draw(c12._cases())
    E1, L = case['lexicons']['E:1'], case['lexicons']['L:1']
    if len(E1['synsets']) >= 3 and draw(st.booleans()):
        a, g1, g2 = E1['synsets'][:3]
        a['ili'] = L['synsets'][0]['ili'] = 'i1'
        g1['ili'], g2['ili'] = 'ix', 'iy'          # no synset of L carries these
        rt = draw(st.sampled_from(['hypernym', 'hyponym', 'similar']))
        a.setdefault('relations', []).append({'target': g1['id'], 'relType': rt, 'meta': None})
        g1.setdefault('relations', []).append({'target': g2['id'], 'relType': rt, 'meta': None})
        back = draw(st.sampled_from([None] + [x['id'] for x in E1['synsets']]))
        if back:
            g2.setdefault('relations', []).append({'target': back, 'relType': rt, 'meta': None})
        case['selection'] = draw(st.sampled_from(['L:1', 'L:1', None]))
        case['expand'] = draw(st.sampled_from(['E:1', '*']))
    if draw(st.integers(0, 2)) == 0:
        # E:1 reuses L's synset ids: entities of two lexicons with one id are different entities
        ren = {x['id']: f'L-s{i}' for i, x in enumerate(E1['synsets'])}
        ext = case['lexicons'].get('EX:1', {'synsets': []})      # an extension of E:1, if any
        for x in E1['synsets'] + ext['synsets']:
            x['id'] = ren.get(x['id'], x['id'])
            for r in x.get('relations', []):
                r['target'] = ren.get(r['target'], r['target'])
        if draw(st.booleans()):
            case['selection'] = 'L:1 E:1'
            if len(L['synsets']) >= 2 and draw(st.booleans()):
                # L-s0 reaches, through E:1, both L:1|L-s1 and E:1|L-s1
                e0, e1 = E1['synsets'][:2]
                e0['ili'] = L['synsets'][0]['ili'] = 'i1'
                e1['ili'] = L['synsets'][1]['ili'] = 'i2'
                e0.setdefault('relations', []).append(
                    {'target': e1['id'], 'relType': 'hypernym', 'meta': None})
                if case['expand'] == '':
                    case['expand'] = 'E:1'
    return case


def _x_reach(view, rss, names):
    """Reference closure on the mapped graph: key strings reachable in >= 1 steps."""
    from . import c12
    reach, todo = [], list(c12._related(view, rss, names, rss.owner))
    while todo:
        k = todo.pop(0)
        ks = c12._kstr(k)
        if ks not in reach:
            reach.append(ks)
            todo.extend(c12._related(view, c12._node_of(view, k), names, rss.owner))
    return reach


def _x_classify(case):
    from . import c12
    ref = RefDB()
    for spec in case['order']:
        ref.add_resource({'lmf_version': '1.1', 'lexicons': [case['lexicons'][spec]]})
    view = c12._view(ref, case)
    tags = set()
    for rss in view.synsets():
        for names in _XTYPES:
            reach = _x_reach(view, rss, names)
            ph = [k for k in reach if k.startswith('*INFERRED*')]
            if ph:
                tags.add('closure-through-placeholder')
            if len(ph) >= 2:
                tags.add('closure-through-2-placeholders')
            ids = [k.partition('|')[2] for k in reach if not k.startswith('*INFERRED*')]
            if len(set(ids)) < len(ids):
                tags.add('closure-reaches-one-id-in-two-lexicons')
    return bool(tags), sorted(tags)


def _x_oracle(case):
    from . import c12
    ref = c12._setup(case)
    view = c12._view(ref, case)
    w, _warns = observe.make_wordnet(case['selection'], None, case['expand'])
    if _raised(w):
        return [Disc('wordnet-raises', '', 'Wordnet object', w)]
    out: list[Disc] = []
    bykey = {key_of(x): x for x in w.synsets()}
    for rss in view.synsets():
        ss = bykey.get(rss.key)
        if ss is None:
            continue
        for names in _XTYPES:
            reach = _x_reach(view, rss, names)
            got = [c12._kstr(key_of(t)) for t in _take(ss.closure(*names), 2 * len(reach) + 2)]
            # real synsets once each; a placeholder is identified by its ILI here while wn
            # tells apart placeholders created from sources of different lexicons, so how
            # often one is yielded is left open
            real = sorted(k for k in got if not k.startswith('*INFERRED*'))
            ph = sorted({k for k in got if k.startswith('*INFERRED*')})
            got = sorted(real + ph)
            if got != sorted(reach):
                out.append(Disc('synset.closure-expanded', f"closure({','.join(names)})",
                                sorted(reach), sorted(got), note=rss.key))
        if len(out) > 6:
            break
    return out


def _sample(case):
    return case


SUBS = [
    Sub('relations', oracle, _classify, strategy=lambda tier: _cases(),
        budget={'quick': 150, 'thorough': 3000}, case_timeout=60.0, timeout_is_violation=True,
        fingerprint=lambda c: fingerprint([c['resource'], c['scope']]),
        require_tags=('cycle', 'self-loop', 'exact-duplicate', 'parallel-dc-type',
                      'scope:ext', 'scope:default', 'scope:base+ext')),
    Sub('closure-expanded', _x_oracle, _x_classify,
        strategy=lambda tier: _x_cases(),
        budget={'quick': 120, 'thorough': 2000}, case_timeout=60.0, timeout_is_violation=True,
        fingerprint=lambda c: fingerprint([c['lexicons'], c['order'], c['selection'],
                                           c['expand']]),
        require_tags=('closure-through-2-placeholders',
                      'closure-reaches-one-id-in-two-lexicons')),
]
