"""C20 - Invalid WN-LMF is rejected as a whole; scans agree with full loads."""

from __future__ import annotations

import base64
import copy
import os
import re
import subprocess
import sys
import xml.etree.ElementTree as ET

from hypothesis import strategies as st

from .. import dumps, env, gen, lmfmut, xmlw
from ..canon import canon, diff, fingerprint
from ..harness import Disc, Sub

PROPERTY = 'C20'
LEVEL = 'exploration'
RULE = (
    'Hypothesis draws a resource (1-3 lexicons, LMF 1.0-1.3, extensions; lexicon ids with '
    'non-ASCII name characters, versions and labels with quotes, &, <, >, TAB/LF/CR and non-BMP '
    'characters) and a writer style (quote character, escaping by named/decimal/hex references, '
    'attribute order and line breaks, CDATA, comments). VALID family: the document F, F with '
    'white space in the scanned attributes written literally, F with tag look-alike text in CDATA, '
    'and lmf.dump(lmf.load(F)): is_lmf true, load succeeds, scan_lexicons(F) == '
    '[(id, version, label, extends)] of load(F) in order, add succeeds and installs the plain '
    'lexicons. MUTANT family: one fault applied to the element tree / text of F: identifying '
    'attribute removed, element renamed to an unknown name, 1.1-only element inserted in a 1.0 '
    'document, 1.0 DOCTYPE on a document with 1.1-only elements, single-valued child repeated, '
    'closing tag removed, end tag mismatched, attribute written twice, file truncated, seven '
    'header faults (and, judged either way - rejected by load and add, or accepted with scan == '
    'load -, a lexicon, the root element or Extends nested where no DTD has it); oracle: load raises, add raises and the raw table dump is unchanged (database '
    'empty or holding an unrelated lexicon), is_lmf false for header faults and true for body '
    'faults (the mutants of one document are successive edits of one path, the intact '
    'document first; sites inside a LexiconExtension are kinds of their own); 16 further '
    'header spellings: is_lmf false => load and add raise, is_lmf true => '
    'the whole valid oracle. The enumerated subcheck applies every class at every position of '
    'generated documents. The bytes subcheck feeds raw bytes (valid documents, byte edits and, in '
    'the thorough tier, an atheris/libFuzzer campaign of 10000 executions per shard) to the '
    'implication form: load accepts => is_lmf and scan agrees; load rejects => add rejects and '
    'the database is unchanged. Non-trivial: any mutant; a valid document with a reference, either '
    'quote, literal white space or a look-alike in what scan_lexicons reads; distinct by '
    '(document, style, mutation).')
ASSUMPTIONS = [
    '"required identifying attribute" = id of Lexicon, LexiconExtension, LexicalEntry, Sense, '
    'Synset, External{LexicalEntry,Form,Sense,Synset}, Requires, Extends; version of Lexicon, '
    'LexiconExtension, Requires, Extends; Sense@synset; relation target; writtenForm of Lemma and '
    'Form (what identifies a form within its entry; wn rejects its absence in every context). Not: '
    'Form@id and SyntacticBehaviour@id (#IMPLIED), label/language/email/license, ili, relType, '
    'partOfSpeech (required but not identifying; the property does not name them)',
    '"element that does not exist in its declared version" = a name outside the element table of '
    'the declared version; known elements at a wrong place are not generated',
    'must-reject header faults are those the statement names (no XML declaration, no DOCTYPE or '
    'DOCTYPE of an unsupported version / other DTD) or that make the file ill-formed (text before '
    'the declaration, non-UTF-8 byte). BOM, one-line header, another declared encoding, '
    'standalone, CRLF ... are well-formed files with declaration and DOCTYPE: for them only '
    '"is_lmf is true exactly when load accepts the header" is asserted',
    'rejection by add is asserted for a database that holds none of the lexicons of the document '
    '(empty, or one unrelated lexicon), DESIGN C20 precondition. add() reads a file only if its '
    'pre-scan finds a lexicon to add; when add returns without exception on a mutant and '
    'scan_lexicons(mutant) lists only extensions (their bases are not installed: the skip of C07; '
    'happens when the fault hides the base lexicon from the regex scan or gives it an <Extends>) '
    'only "database unchanged" is asserted (tag add-skips:...); when the scan lists no lexicon at '
    'all (no valid file does) the silent return is reported, kind '
    'invalid-file-ignored-by-add:no-lexicon-found',
    'any exception type counts as rejection (lmf.py uses assert for required attributes)',
    'documents avoid Synset without partOfSpeech and SyntacticBehaviour without id (C01 defects of '
    'add, not C20); element text has no Unicode white space other than single U+0020',
    'trusted base: wnv/xmlw.py + wnv/lmfmut.py; every case checks with ElementTree that the valid '
    'document is well-formed and reads back as the model, and that each mutant is / is not '
    'well-formed as its class claims',
]
SHARDS = {'quick': 4, 'thorough': 16}

_PROFILE = gen.Profile(allow_no_pos_synset=False, allow_frame_without_id=False,
                       max_entries=3, max_synsets=3)
_SMALL = gen.Profile(allow_no_pos_synset=False, allow_frame_without_id=False,
                     max_entries=2, max_synsets=2, max_senses=2, max_forms=1, max_attach=1,
                     max_relations=2)
_ID_SUFFIXES = ['', '', 'é', '-語', '_ñx', 'あ', '-2']
_LOOKALIKES = ['<Lexicon id="zz" version="9">',
               '<LexiconExtension id="zz" version="9" label="phantom">',
               '<Extends id="zz" version="9"/>',
               "<Lexicon version='9' id='zz' label='x'>",
               # openers and closers of the other constructs a scan has to skip
               'a <!-- b', 'a --> b', 'a <?b c', 'a ?> b', '<!-- <Lexicon id="zz" version="9">']
_UNRELATED = {'lmf_version': '1.0', 'lexicons': [{
    'id': 'zz-unrelated', 'version': '0', 'label': 'unrelated', 'language': 'en', 'email': 'e',
    'license': 'l', 'meta': None,
    'entries': [{'id': 'zz-e1', 'lemma': {'writtenForm': 'zz', 'partOfSpeech': 'n'}, 'meta': None,
                 'senses': [{'id': 'zz-s1', 'synset': 'zz-ss1', 'meta': None}]}],
    'synsets': [{'id': 'zz-ss1', 'ili': '', 'partOfSpeech': 'n', 'meta': None}]}]}


# ---------------------------------------------------------------------------
# generators

@st.composite
def _documents(draw, profile=_PROFILE, version=None, max_lexicons=3, plain_ids=False):
    """A resource whose scanned attributes (lexicon id / version / label, Extends
    id / version) carry characters that need references or a particular quote."""
    res = draw(gen.resources(profile, max_lexicons=max_lexicons, version=version))
    if plain_ids:
        return res
    ren = {}
    for lx in res['lexicons']:
        new_id = lx['id'] + draw(st.sampled_from(_ID_SUFFIXES))
        new_ver = draw(st.one_of(st.sampled_from(gen.LEX_VERSIONS),
                                 gen.attr_text(1, 6, True)))
        ren[(lx['id'], lx['version'])] = (new_id, new_ver)
    for lx in res['lexicons']:
        ext = lx.get('extends')
        if ext and (ext['id'], ext['version']) in ren:
            ext['id'], ext['version'] = ren[(ext['id'], ext['version'])]
        lx['id'], lx['version'] = ren[(lx['id'], lx['version'])]
    return res


def _plant_lookalike(draw, res):
    """Put tag look-alike text into one definition / example (valid content)."""
    slots = []
    for lx in res['lexicons']:
        for ss in lx.get('synsets', []):
            slots += ss.get('definitions', []) + ss.get('examples', [])
            if ss.get('ili_definition'):
                slots.append(ss['ili_definition'])
        for e in lx.get('entries', []):
            for s in e.get('senses', []):
                slots += s.get('examples', [])
    if not slots:
        return False
    for k in sorted(set(draw(st.lists(st.integers(0, len(slots) - 1), min_size=1, max_size=4)))):
        slots[k]['text'] = draw(st.sampled_from(_LOOKALIKES))
    return True


@st.composite
def _valid_cases(draw):
    res = draw(_documents())
    style = draw(xmlw.styles())
    lookalike = False
    if draw(st.integers(0, 3)) == 0:
        lookalike = _plant_lookalike(draw, res)
        if lookalike:
            style = dict(style, cdata=True, comments=draw(st.booleans()) or style['comments'])
    return {'resource': res, 'style': style,
            'literal_ws': draw(st.integers(0, 3)) == 0,
            'lookalike': lookalike,
            'db': draw(st.sampled_from(['empty', 'unrelated']))}


_BODY_WEIGHTED = (['attr-removed'] * 4 + ['elem-renamed'] * 3 + ['v11-elem-in-v10'] * 3
                  + ['doctype-downgrade'] + ['child-duplicated'] * 3 + ['close-tag-removed'] * 2
                  + ['end-tag-mismatch'] + ['attr-duplicated'] + ['truncated'] * 3
                  + ['misnested'] * 2)


@st.composite
def _mutant_cases(draw, n_mutations=6):
    """One document and several independent single-fault mutations of it."""
    forced = draw(st.sampled_from([None, None, None, '1.0', '1.0', '1.1', '1.3']))
    res = draw(_documents(version=forced))
    style = draw(xmlw.styles())
    avail = lmfmut.available(xmlw.to_tree(res), res['lmf_version'])
    body = [c for c in _BODY_WEIGHTED if c in avail]
    muts = []
    for _ in range(n_mutations):
        group = draw(st.sampled_from(['body'] * 8 + ['header-fault', 'header-variant']))
        if group == 'body':
            cls = draw(st.sampled_from(body))
            muts.append({'class': cls, 'kind': draw(st.sampled_from(avail[cls])) or None,
                         'pos': draw(st.integers(0, 9999)), 'arg': draw(st.integers(0, 41))})
        else:
            classes = (lmfmut.HEADER_FAULTS if group == 'header-fault'
                       else lmfmut.HEADER_VARIANTS)
            muts.append({'class': draw(st.sampled_from(classes)), 'kind': None, 'pos': 0,
                         'arg': draw(st.integers(0, 11))})
    ext_kinds = [k for k in avail.get('attr-removed', []) if k and k.endswith('~ext')]
    if ext_kinds and draw(st.booleans()):
        # sites inside a LexiconExtension are rare among all sites: aim one mutation at them
        wf = [k for k in ext_kinds if 'writtenForm' in k]     # new words of the extension
        pool = wf if wf and draw(st.booleans()) else ext_kinds
        muts[-1] = {'class': 'attr-removed', 'kind': draw(st.sampled_from(pool)),
                    'pos': draw(st.integers(0, 9999)), 'arg': draw(st.integers(0, 41))}
    return {'resource': res, 'style': style, 'mutations': muts,
            'db': draw(st.sampled_from(['empty', 'unrelated']))}


def _collect(strategy, n, seed_value):
    """n cases drawn deterministically from a strategy (for enumerated families)."""
    from hypothesis import HealthCheck, Phase, given, seed, settings
    got = []

    @seed(seed_value)
    @settings(max_examples=n, database=None, deadline=None, phases=[Phase.generate],
              suppress_health_check=list(HealthCheck))
    @given(strategy)
    def collect(x):
        if len(got) < n:
            got.append(x)
    collect()
    return got


def _enumerate_positions(tier, shard, nshards):
    """Every class at every position of a few generated documents per shard."""
    vs = int(os.environ.get('VERIF_SEED', '1') or 1)
    ndocs = 1 if tier == 'quick' else 4
    max_cut = 40 if tier == 'quick' else 400
    # Hypothesis starts with minimal examples: draw a pool, keep the richest
    pool_n = 12 if tier == 'quick' else 40

    def richest(strategy, k, seed_value):
        pool = _collect(st.tuples(strategy, xmlw.styles()), pool_n, seed_value)
        pool.sort(key=lambda p: -sum(1 for _ in lmfmut.walk(xmlw.to_tree(p[0]))))
        return pool[:k]
    pairs = richest(_documents(_SMALL, max_lexicons=2), ndocs, vs * 7919 + shard * 131 + 17)
    # one 1.0 document per shard as well so that the version class is enumerated
    pairs += richest(_documents(_SMALL, max_lexicons=2, version='1.0'), 1,
                     vs * 7919 + shard * 131 + 18)
    for j, (res, style) in enumerate(pairs):
        db = 'empty' if (j + shard) % 2 == 0 else 'unrelated'

        def case(cls, pos, arg=0):
            return {'resource': res, 'style': style, 'db': db,
                    'mutations': [{'class': cls, 'kind': None, 'pos': pos, 'arg': arg}]}
        for cls in lmfmut.BODY_CLASSES:
            n = lmfmut.count_sites(cls, res, style)
            if cls == 'truncated':
                step = max(1, n // max_cut)
                # every position in the prolog / first start tag, then strided
                dense = min(n, 60 if tier == 'quick' else 300)
                positions = list(range(0, dense)) + list(range(dense, n, step)) + [n - 1]
                for pos in sorted(set(positions)):
                    yield case(cls, pos)
            else:
                for pos in range(n):
                    yield case(cls, pos, arg=pos + j)
                    if cls == 'child-duplicated':
                        yield case(cls, pos, arg=pos + j + 1)
        for cls in lmfmut.HEADER_FAULTS + lmfmut.HEADER_VARIANTS:
            nargs = {'doctype-unsupported': len(lmfmut.UNSUPPORTED_VERSIONS),
                     'doctype-other-dtd': 3, 'doctype-not-utf8': 3}.get(cls, 1)
            for arg in range(nargs):
                yield case(cls, 0, arg)


# ---------------------------------------------------------------------------
# oracle parts

_outcome = {'case': None, 'tags': []}


def _note_outcome(case, *tags):
    if _outcome['case'] is not case:
        _outcome['case'] = case
        _outcome['tags'] = []
    _outcome['tags'].extend(tags)


def _wellformed(data: bytes) -> bool:
    try:
        ET.fromstring(data)
        return True
    except ET.ParseError:
        return False


def _selftest_valid(res, style, data: bytes, path) -> None:
    if data != xmlw.dumps(res, style).encode('utf-8'):
        raise env.HarnessError('lmfmut serialiser differs from xmlw.dumps on the valid document')
    path.write_bytes(data)
    back = xmlw.ref_load(path)
    dd = diff(canon(res), canon(back))
    if dd:
        raise env.HarnessError(f'xmlw self-test failed: {dd[:3]}')


def _proj(resource) -> list:
    out = []
    for lx in resource['lexicons']:
        ext = lx.get('extends')
        out.append({'id': lx['id'], 'version': lx['version'], 'label': lx['label'],
                    'extends': {'id': ext['id'], 'version': ext['version']} if ext else None})
    return out


_REF = re.compile(r'&(#x[0-9a-fA-F]+|#[0-9]+|lt|gt|amp|quot|apos);')
_ENT = {'lt': '<', 'gt': '>', 'amp': '&', 'quot': '"', 'apos': "'"}


def _resolve(s):
    def r(m):
        x = m.group(1)
        if x.startswith('#x'):
            return chr(int(x[2:], 16))
        if x.startswith('#'):
            return chr(int(x[1:]))
        return _ENT[x]
    return _REF.sub(r, s)


def _cause(expected, got) -> str:
    """Label for the bucket only (why the scanned value differs)."""
    if not isinstance(expected, str) or not isinstance(got, str):
        return 'other'
    if _resolve(got) == expected:
        return 'reference-not-resolved'
    ws = re.sub(r'\r\n|[\t\n\r]', ' ', got)
    if ws == expected:
        return 'white-space-not-normalised'
    if _resolve(ws) == expected:
        return 'reference-and-white-space'
    return 'other'


def _compare_scan(scan, loaded, label, out) -> None:
    exp = _proj(loaded)
    got = [dict(x) for x in scan]
    if len(exp) != len(got):
        out.append(Disc('scan-differs-from-load:number-of-lexicons', label,
                        [(x['id'], x['version']) for x in exp],
                        [(x.get('id'), x.get('version')) for x in got]))
        return
    for i, (e, g) in enumerate(zip(exp, got)):
        for key in ('id', 'version', 'label'):
            if e[key] != g.get(key):
                out.append(Disc('scan-differs-from-load:' + _cause(e[key], g.get(key)),
                                label, e[key], g.get(key), note=f'lexicon[{i}].{key}'))
        ee, ge = e['extends'], g.get('extends')
        if (ee is None) != (ge is None):
            out.append(Disc('scan-differs-from-load:extends-presence', label, ee, ge,
                            note=f'lexicon[{i}].extends'))
        elif ee is not None:
            for key in ('id', 'version'):
                if ee[key] != ge.get(key):
                    out.append(Disc('scan-differs-from-load:' + _cause(ee[key], ge.get(key)),
                                    label, ee[key], ge.get(key),
                                    note=f'lexicon[{i}].extends.{key}'))
            if set(ge) != {'id', 'version'}:
                out.append(Disc('scan-differs-from-load:extends-keys', label,
                                ['id', 'version'], sorted(ge), note=f'lexicon[{i}].extends'))
        if set(g) != {'id', 'version', 'label', 'extends'}:
            out.append(Disc('scan-differs-from-load:keys', label,
                            ['extends', 'id', 'label', 'version'], sorted(g),
                            note=f'lexicon[{i}]'))


def _prepare_db(state, workdir):
    """A database that holds none of the document's lexicons."""
    import wn
    db = env.fresh_db()
    wn.lexicons()      # creates the database file
    if state == 'unrelated':
        f = xmlw.write(_UNRELATED, workdir / 'unrelated.xml', None)
        wn.add(f, progress_handler=None)
    return db


def _what(built) -> str:
    return f'[{built.kind}] {built.what}' if built.kind else built.what


def _exc(exc) -> str:
    return f'{type(exc).__name__}: {exc}'[:300]


def _check_valid_file(case, f, label, dbstate, workdir, out):
    """The VALID-family oracle on file *f*; returns the loaded resource or None."""
    import wn
    import wn.lmf as lmf
    try:
        ok = lmf.is_lmf(f)
    except Exception as exc:  # noqa: BLE001
        out.append(Disc('is_lmf-raises', label, True, _exc(exc)))
        ok = None
    if ok is False:
        out.append(Disc('is_lmf-false-for-valid-file', label, True, False))
    try:
        loaded = lmf.load(f, progress_handler=None)
    except Exception as exc:  # noqa: BLE001
        kind = ('is_lmf-true-but-load-rejects' if label == 'header-variant'
                else 'valid-file-rejected-by-load')
        out.append(Disc(kind, label, 'accepted', _exc(exc)))
        return None
    try:
        scan = lmf.scan_lexicons(f)
    except Exception as exc:  # noqa: BLE001
        out.append(Disc('scan-raises-on-valid-file', label, _proj(loaded), _exc(exc)))
        scan = None
    if scan is not None:
        _compare_scan(scan, loaded, label, out)
    db = _prepare_db(dbstate, workdir)
    try:
        wn.add(f, progress_handler=None)
    except Exception as exc:  # noqa: BLE001
        out.append(Disc('valid-file-rejected-by-add', label, 'accepted', _exc(exc),
                        note=f'scan={scan!r}'[:300]))
        _note_outcome(case, f'{label}:add-raises:{type(exc).__name__}')
        return loaded
    have = set(dumps.installed(db.file))
    want = [f"{lx['id']}:{lx['version']}" for lx in loaded['lexicons'] if not lx.get('extends')]
    missing = [w for w in want if w not in have]
    if missing:
        out.append(Disc('valid-file-not-installed-by-add', label, want, sorted(have),
                        note=f'scan={scan!r}'[:300]))
    return loaded


def valid_oracle(case):
    import wn.lmf as lmf
    res, style = case['resource'], case['style']
    d = env.new_dir('c20v')
    out: list[Disc] = []
    plain = lmfmut.valid_bytes(res, style)
    _selftest_valid(res, style, plain, d / 'plain.xml')
    data = lmfmut.valid_bytes(res, style, literal_ws=True) if case.get('literal_ws') else plain
    if not _wellformed(data):
        raise env.HarnessError('valid document is not well-formed')
    f = d / 'in.xml'
    f.write_bytes(data)
    loaded = _check_valid_file(case, f, 'document', case['db'], d, out)
    if loaded is None:
        return out
    # the same document with a reference to an entity the file does not declare inside a label:
    # the DOCTYPE names an external DTD nobody reads, so the file is still well-formed and the
    # parser skips the reference - the scan has to agree with what load() then reports
    m = re.search(rb'<Lexicon(?:Extension)?\b[^>]*?\blabel\s*=\s*["\']', data)
    if m and len(data) % 2 == 0:
        h = d / 'entity.xml'
        h.write_bytes(data[:m.end()] + b'&wnv.undeclared;' + data[m.end():])
        try:
            lmf.load(h, progress_handler=None)
        except Exception:  # noqa: BLE001
            pass        # (a reader may also reject it; then nothing is compared)
        else:
            _check_valid_file(case, h, 'undeclared-entity', case['db'], d, out)
    # the output of dump() is a further valid family
    g = d / 'dumped.xml'
    lmf.dump(copy.deepcopy(loaded), g)
    _check_valid_file(case, g, 'dump-output', case['db'], d, out)
    return out


def _add_must_reject(dbstate, case, f, built, workdir, out):
    import wn
    import wn.lmf as lmf
    db = _prepare_db(dbstate, workdir)
    before = dumps.raw_dump(db.file)
    raised = None
    try:
        wn.add(f, progress_handler=None)
    except Exception as exc:  # noqa: BLE001
        raised = exc
    after = dumps.raw_dump(db.file)
    where = built.cls
    _note_outcome(case, 'add-raises:' + type(raised).__name__ if raised is not None
                  else 'add-returns')
    if raised is None:
        # add() reads the file only if its pre-scan finds a lexicon to add; see
        # ASSUMPTIONS for the three outcomes of a silent return
        try:
            infos = lmf.scan_lexicons(f)
        except Exception as exc:  # noqa: BLE001
            infos = None
            scan = _exc(exc)
        else:
            scan = [(i.get('id'), i.get('version'), bool(i.get('extends'))) for i in infos]
        if infos is not None and infos and all(i.get('extends') for i in infos):
            # every lexicon the pre-scan sees is an extension without installed
            # base: the skip C07 describes; nothing is asserted beyond "unchanged"
            _note_outcome(case, 'add-skips:every-scanned-lexicon-lacks-its-base')
        else:
            kind = ('invalid-file-ignored-by-add:no-lexicon-found' if infos == []
                    else 'invalid-file-accepted-by-add')
            out.append(Disc(kind, where, 'exception', 'returned normally',
                            note=f'{_what(built)}; scan_lexicons: {scan!r}'[:400]))
    changes = diff(before, after)
    for p, e, g in changes[:5]:
        out.append(Disc('invalid-file-changed-database', f'{where}{p}', e, g, note=_what(built)))


def mutant_oracle(case):
    import wn.lmf as lmf
    res, style = case['resource'], case['style']
    d = env.new_dir('c20m')
    orig = lmfmut.valid_bytes(res, style)
    _selftest_valid(res, style, orig, d / 'orig.xml')
    # the premise of "single fault": the unmutated document is accepted
    try:
        lmf.load(d / 'orig.xml', progress_handler=None)
    except Exception as exc:  # noqa: BLE001
        return [Disc('valid-file-rejected-by-load', 'document', 'accepted', _exc(exc))]
    out: list[Disc] = []
    # the mutants are successive edits of one file: every probe of that path has to look at
    # what the file holds now
    (d / 'doc.xml').write_bytes(orig)
    if lmf.is_lmf(d / 'doc.xml') is not True:
        out.append(Disc('is_lmf-false-with-valid-header', 'document', True, False))
    for k, mut in enumerate(case['mutations']):
        _one_mutant(case, k, mut, orig, d, out)
    return out


def _one_mutant(case, k, mut, orig, d, out):
    import wn.lmf as lmf
    try:
        built = lmfmut.build(case['resource'], case['style'], mut)
    except lmfmut.MutationError as exc:
        raise env.HarnessError(f'mutation not applicable: {mut}: {exc}') from exc
    if built.data == orig:
        raise env.HarnessError(f'mutation is a no-op: {mut}')
    if built.wellformed is not None and _wellformed(built.data) != built.wellformed:
        raise env.HarnessError(f'mutant well-formedness is not {built.wellformed}: {mut} '
                               f'{built.what}')
    where = built.cls
    f = d / 'doc.xml'
    f.write_bytes(built.data)
    # alternate the database state over the mutants of one document
    dbstate = case['db'] if k % 2 == 0 else ('empty' if case['db'] == 'unrelated'
                                             else 'unrelated')

    try:
        is_lmf = lmf.is_lmf(f)
    except Exception as exc:  # noqa: BLE001
        out.append(Disc('is_lmf-raises', where,
                        {'intact': True, 'fault': False}.get(built.header, 'True or False'),
                        _exc(exc), note=_what(built)))
        is_lmf = None
    _note_outcome(case, f'is_lmf:{is_lmf}')

    if built.header == 'variant' and is_lmf is True:
        # header accepted: the file is a valid document
        _check_valid_file(case, f, 'header-variant', dbstate, d, out)
        return

    if built.header == 'intact' and is_lmf is False:
        out.append(Disc('is_lmf-false-with-valid-header', where, True, False, note=_what(built)))
    if built.cls in lmfmut.EITHER_WAY:
        # not a fault the property lists: rejected (then by add as well, database unchanged) or
        # accepted - and then the scan has to agree with what load() returns
        try:
            lmf.load(f, progress_handler=None)
        except Exception as exc:  # noqa: BLE001
            _note_outcome(case, f'{built.cls}:load-raises:{type(exc).__name__}')
            _add_must_reject(dbstate, case, f, built, d, out)
        else:
            _note_outcome(case, f'{built.cls}:load-returns')
            _check_valid_file(case, f, built.cls, dbstate, d, out)
        return
    if built.header == 'fault' and is_lmf is True:
        out.append(Disc('is_lmf-true-with-invalid-header', where, False, True, note=_what(built)))

    try:
        got = lmf.load(f, progress_handler=None)
    except Exception as exc:  # noqa: BLE001
        _note_outcome(case, 'load-raises:' + type(exc).__name__)
    else:
        _note_outcome(case, 'load-returns')
        kind = ('is_lmf-false-but-load-accepts' if built.header == 'variant'
                else 'invalid-file-accepted-by-load')
        out.append(Disc(kind, where, 'exception',
                        [f"{lx.get('id')}:{lx.get('version')}" for lx in got['lexicons']],
                        note=_what(built)))

    _add_must_reject(dbstate, case, f, built, d, out)


# ---------------------------------------------------------------------------
# raw bytes: the implication form of the same oracle (atheris campaign, DESIGN 3.11)

class DbOnce:
    """A fresh database per file (harness / replay mode)."""

    def get(self, workdir):
        db = _prepare_db('unrelated', workdir)
        return db, dumps.raw_dump(db.file)

    def spoiled(self):
        pass


class DbKeep:
    """One database for a whole campaign (every file must leave it unchanged);
    rebuilt after a file that changed it."""

    def __init__(self):
        self.db = None
        self.before = None

    def get(self, workdir):
        if self.db is None:
            self.db = _prepare_db('unrelated', workdir)
            self.before = dumps.raw_dump(self.db.file)
        return self.db, self.before

    def spoiled(self):
        self.db = None


class _Bytes:
    cls, kind, what, header = 'bytes', '', 'arbitrary bytes', None


def check_bytes(data: bytes, workdir, dbs, case=None) -> list:
    """load accepts => is_lmf and scan_lexicons agrees; load rejects => add rejects
    and the database is unchanged; is_lmf false => load rejects; nothing else."""
    import wn
    import wn.lmf as lmf
    f = workdir / 'bytes.xml'
    f.write_bytes(data)
    out: list[Disc] = []
    try:
        is_lmf = lmf.is_lmf(f)
    except Exception as exc:  # noqa: BLE001
        out.append(Disc('is_lmf-raises', 'bytes', 'True or False', _exc(exc)))
        is_lmf = None
    try:
        loaded = lmf.load(f, progress_handler=None)
    except Exception as exc:  # noqa: BLE001
        loaded = None
        if case is not None:
            _note_outcome(case, 'load-raises:' + type(exc).__name__)
    if loaded is not None:
        if case is not None:
            _note_outcome(case, 'load-returns')
        if is_lmf is False:
            out.append(Disc('is_lmf-false-but-load-accepts', 'bytes', True, False))
        try:
            scan = lmf.scan_lexicons(f)
        except Exception as exc:  # noqa: BLE001
            out.append(Disc('scan-raises-on-accepted-file', 'bytes', _proj(loaded), _exc(exc)))
        else:
            _compare_scan(scan, loaded, 'bytes', out)
        return out
    # rejected by load
    db, before = dbs.get(workdir)
    raised = None
    try:
        wn.add(f, progress_handler=None)
    except Exception as exc:  # noqa: BLE001
        raised = exc
    after = dumps.raw_dump(db.file)
    if case is not None:
        _note_outcome(case, 'add-raises:' + type(raised).__name__ if raised is not None
                      else 'add-returns')
    if raised is None:
        try:
            infos = lmf.scan_lexicons(f)
        except Exception as exc:  # noqa: BLE001
            infos, scan = None, _exc(exc)
        else:
            scan = [(i.get('id'), i.get('version'), bool(i.get('extends'))) for i in infos]
        if not (infos and all(i.get('extends') for i in infos)):
            kind = ('invalid-file-ignored-by-add:no-lexicon-found' if infos == []
                    else 'invalid-file-accepted-by-add')
            out.append(Disc(kind, 'bytes', 'exception', 'returned normally',
                            note=f'scan_lexicons: {scan!r}'[:300]))
    changes = diff(before, after)
    if changes:
        dbs.spoiled()
    for p, e, g in changes[:5]:
        out.append(Disc('invalid-file-changed-database', f'bytes{p}', e, g))
    return out


def bytes_oracle(case):
    if case.get('origin') == 'atheris-unavailable':
        return []
    data = base64.b64decode(case['b64'])
    return check_bytes(data, env.new_dir('c20b'), DbOnce(), case)


def _classify_bytes(case):
    tags = ['origin:' + case.get('origin', '?')] + _take_outcome(case)
    return case.get('origin') not in ('valid', 'atheris-unavailable'), sorted(set(tags))


FUZZ_DICT = [
    '<?xml version="1.0" encoding="UTF-8"?>', '<!DOCTYPE LexicalResource SYSTEM "',
    'http://globalwordnet.github.io/schemas/WN-LMF-1.0.dtd',
    'http://globalwordnet.github.io/schemas/WN-LMF-1.1.dtd',
    'http://globalwordnet.github.io/schemas/WN-LMF-1.3.dtd', 'WN-LMF-1.4.dtd',
    '<![CDATA[', ']]>', '<!--', '-->', '<?', '?>', '</', '/>', '&amp;', '&lt;', '&gt;',
    '&quot;', '&apos;', '&#x', '&#', ';', ' id="', ' version="', ' label="', " id='",
    ' synset="', ' target="', ' relType="', ' ili="', ' xmlns:dc="', ' dc:', ' xml:space="',
] + ['<' + t for t in sorted(lmfmut.ALL_ELEMS)] + ['</' + t + '>' for t in sorted(lmfmut.ALL_ELEMS)]


def _byte_variants(data: bytes, k: int):
    """A few deterministic byte-level edits (smoke test of the bytes oracle)."""
    n = len(data)
    p = (k * 7919) % max(1, n)
    yield data[:p] + data[p + 1:]
    yield data[:p] + b'&' + data[p:]
    yield data[:p] + b'<' + data[p:]
    yield data[:p] + bytes([data[p] ^ 0x20]) + data[p + 1:]
    yield data[:p] + b'\xff' + data[p:]
    yield data + data[-40:]
    yield data.replace(b'"', b"'", 3)


def _enumerate_bytes(tier, shard, nshards):
    vs = int(os.environ.get('VERIF_SEED', '1') or 1)
    ndocs = 3 if tier == 'quick' else 12
    pairs = _collect(st.tuples(_documents(_SMALL, max_lexicons=2), xmlw.styles()),
                     ndocs + 3, vs * 104729 + shard * 37 + 5)[3:]
    seeds = [lmfmut.valid_bytes(res, style) for res, style in pairs]

    def case(data, origin):
        return {'b64': base64.b64encode(data).decode('ascii'), 'origin': origin}
    for j, data in enumerate(seeds):
        yield case(data, 'valid')
        for v in _byte_variants(data, j + shard + vs):
            yield case(v, 'byte-edit')
    if tier != 'thorough':
        return
    # coverage-guided campaign in a subprocess (same oracle: check_bytes)
    runs = int(os.environ.get('C20_FUZZ_RUNS', '10000'))
    seconds = 180       # safety cap only; the campaign is bounded by executions
    work = env.new_dir('c20fuzz')
    corpus, findings = work / 'corpus', work / 'findings'
    corpus.mkdir()
    findings.mkdir()
    for j, data in enumerate(seeds):
        (corpus / f'seed{j}.xml').write_bytes(data)
    (work / 'xml.dict').write_text(
        ''.join('"' + ''.join(f'\\x{b:02x}' for b in t.encode()) + '"\n' for t in FUZZ_DICT))
    e = dict(os.environ)
    deps = str(env.VERIF_ROOT / '.deps')
    e['PYTHONPATH'] = os.pathsep.join(
        [x for x in (e.get('PYTHONPATH', ''), str(env.VERIF_ROOT), deps) if x])
    cmd = [sys.executable, '-m', 'wnv.fuzz_c20', '--runs', str(runs), '--seconds', str(seconds),
           '--corpus', str(corpus), '--findings', str(findings),
           '--dict', str(work / 'xml.dict'), '--seed', str(vs * 1000 + shard)]
    try:
        p = subprocess.run(cmd, env=e, cwd=str(env.VERIF_ROOT), capture_output=True, text=True,
                           timeout=seconds + 120)
        rc, tail = p.returncode, (p.stdout + p.stderr)[-1500:]
    except subprocess.TimeoutExpired:
        rc, tail = -9, 'fuzzer subprocess timed out'
    if rc == 3:
        print('C20: atheris unavailable - byte-level campaign skipped', file=sys.stderr)
        yield {'b64': '', 'origin': 'atheris-unavailable'}
        return
    if rc != 0:
        raise env.HarnessError(f'fuzz_c20 exited {rc}: {tail}')
    # read everything now: the harness purges the scratch area between cases
    later = [case(fnd.read_bytes(), 'atheris-finding') for fnd in sorted(findings.glob('*.bin'))]
    grown = sorted(p for p in corpus.iterdir() if p.is_file())
    later += [case(fcor.read_bytes(), 'atheris-corpus')
              for fcor in grown[:: max(1, len(grown) // 150)]]
    yield from later


# ---------------------------------------------------------------------------
# classification

def _scanned_strings(res):
    for lx in res['lexicons']:
        yield lx['id']
        yield lx['version']
        yield lx['label']
        if lx.get('extends'):
            yield lx['extends']['id']
            yield lx['extends']['version']


def _doc_tags(case):
    res = case['resource']
    tags = ['v' + res['lmf_version'], 'db:' + case['db'],
            f"lexicons:{len(res['lexicons'])}"]
    if any(lx.get('extends') for lx in res['lexicons']):
        tags.append('extension')
    esc = case['style'].get('escape')
    s = list(_scanned_strings(res))
    if any(c in x for x in s for c in '&<'):
        tags.append('scanned:amp-or-lt')
    if any(c in x for x in s for c in '"\''):
        tags.append('scanned:quote')
    if any('>' in x for x in s):
        tags.append('scanned:gt')
    if any(c in x for x in s for c in '\t\n\r'):
        tags.append('scanned:tab-lf-cr')
    if esc in ('decimal', 'hex') and any(ord(c) > 0x7e for x in s for c in x):
        tags.append('scanned:non-ascii-as-reference')
    return tags


def _take_outcome(case):
    return list(_outcome['tags']) if _outcome['case'] is case else []


def _classify_valid(case):
    tags = _doc_tags(case)
    if case.get('literal_ws'):
        tags.append('literal-white-space')
    if case.get('lookalike'):
        tags.append('cdata-lookalike')
    nontrivial = any(t.startswith('scanned:') for t in tags) or case.get('lookalike')
    return bool(nontrivial), sorted(set(tags + _take_outcome(case)))


def _site_kind(case, mut):
    """The kind of the site a body mutation lands on (for the histogram)."""
    cls = mut['class']
    if cls in ('truncated', 'doctype-downgrade') or cls not in lmfmut.BODY_CLASSES:
        return None
    res = case['resource']
    cands = lmfmut.sites(cls, xmlw.to_tree(res), res['lmf_version'])
    if mut.get('kind'):
        cands = [c for c in cands if c[0] == mut['kind']] or cands
    return cands[mut['pos'] % len(cands)][0] if cands else None


def _classify_mutant(case):
    tags = _doc_tags(case)
    for mut in case['mutations']:
        cls = mut['class']
        group = ('header-fault' if cls in lmfmut.HEADER_FAULTS else
                 'header-variant' if cls in lmfmut.HEADER_VARIANTS else 'body')
        tags += ['class:' + cls, 'group:' + group]
        kind = _site_kind(case, mut)
        if kind:
            tags.append(f'site:{cls}:{kind}')
        if cls in lmfmut.NOT_WELLFORMED:
            tags.append('group:not-well-formed')
    return True, sorted(set(tags + _take_outcome(case)))


def _fp(case):
    return fingerprint([case['resource'], case['style'], case.get('mutations'),
                        case.get('literal_ws'), case['db']])


def _sample(case):
    res = case['resource']
    return {'lmf_version': res['lmf_version'],
            'lexicons': [[lx['id'], lx['version'], lx['label'],
                          'ext' if lx.get('extends') else 'lex'] for lx in res['lexicons']],
            'style': case['style'], 'mutations': case.get('mutations'),
            'literal_ws': case.get('literal_ws'), 'lookalike': case.get('lookalike'),
            'db': case['db']}


_REQUIRED_CLASSES = tuple('class:' + c for c in lmfmut.BODY_CLASSES + lmfmut.HEADER_FAULTS
                          + lmfmut.HEADER_VARIANTS)

SUBS = [
    Sub('valid', valid_oracle, _classify_valid, strategy=lambda tier: _valid_cases(),
        budget={'quick': 60, 'thorough': 300}, fingerprint=_fp, sample=_sample,
        require_tags=('extension', 'literal-white-space', 'cdata-lookalike',
                      'scanned:amp-or-lt', 'scanned:quote', 'scanned:tab-lf-cr',
                      'scanned:non-ascii-as-reference')),
    Sub('mutants', mutant_oracle, _classify_mutant,
        strategy=lambda tier: _mutant_cases(6 if tier == 'quick' else 8),
        budget={'quick': 70, 'thorough': 220}, fingerprint=_fp, sample=_sample,
        require_tags=tuple('class:' + c for c in lmfmut.BODY_CLASSES) + (
            'group:header-fault', 'group:header-variant',
            'site:child-duplicated:Lemma', 'site:child-duplicated:ILIDefinition',
            'site:child-duplicated:Extends', 'site:attr-removed:Lexicon@id',
            'site:attr-removed:Sense@synset', 'site:attr-removed:Lemma@writtenForm~ext',
            'site:attr-removed:Synset@id~ext')),
    Sub('mutants-every-position', mutant_oracle, _classify_mutant,
        enumerate=_enumerate_positions,
        exhaustive_note='every mutation class at every site (truncation: every byte of the '
                        'prolog and first start tag, then strided) of generated documents; '
                        'all header classes and arguments',
        fingerprint=_fp, sample=_sample,
        require_tags=_REQUIRED_CLASSES),
    Sub('bytes', bytes_oracle, _classify_bytes, enumerate=_enumerate_bytes,
        exhaustive_note='valid documents and deterministic byte edits; thorough tier: an atheris '
                        '(libFuzzer) campaign per shard seeded with them and an XML token '
                        'dictionary, its findings and a sample of its corpus re-checked in '
                        'process; records "atheris-unavailable" if atheris cannot be imported',
        sample=lambda c: {'origin': c.get('origin'), 'bytes': len(c.get('b64', '')) * 3 // 4}),
]
