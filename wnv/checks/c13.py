"""C13 - Taxonomy functions agree with graph-theoretic definitions on any hypernym graph."""

from __future__ import annotations

from hypothesis import strategies as st

from .. import graphs as G
from ..harness import Disc, Sub

PROPERTY = 'C13'
LEVEL = 'exploration'
RULE = ('A case is a batch of hypernym digraphs (edge i->j = "j is a hypernym of i", edge mask '
        'over nodes 0..n-1, self-loops allowed), each with an edge labelling hypernym / '
        'instance_hypernym, a part-of-speech layout (all n, or an a/s mix) and optionally declared '
        'reciprocal hyponym edges; the batch is added as one resource (one lexicon per graph) and '
        'every graph is queried through its own Wordnet. Families: every labelled digraph on '
        'n<=3 nodes (530, each in a plain and in a labelled a/s variant), in the thorough tier '
        'every labelled digraph on 4 nodes (65536), Hypothesis-drawn 4-node masks of mixed '
        'density, and random graphs on 5-8 nodes (DAG-biased, cycle-biased, forest, '
        'diamond-stack, layered, two-LCS gadget; thinned to <=120 maximal chains). For every '
        'graph: roots/leaves/taxonomy_depth per part of speech, hypernym_paths/min_depth/max_depth per node, '
        'common/lowest_common_hypernyms/shortest_path per ordered pair (all pairs for n<=5, 16 '
        'drawn pairs above), each with simulate_root False and True, compared with brute-force '
        'reference functions. Sub split-lexicons: graphs of 2-6 nodes divided between a lexicon '
        'and an extension of it (relations crossing the two are declared by the extension), '
        'queried through a Wordnet over both, same oracle. Sub interlingual: a sparse lexicon L expanded over E (C12\'s '
        'generator plus a constructed chain of two concepts L lacks below two synsets of L): '
        'common_hypernyms(a,b) for all pairs of one lexicon == intersection of the reference '
        'ancestor sets on the ILI-mapped graph (placeholders identified by ILI), lowest a non-empty '
        'subset of it. Non-trivial graph: multiple inheritance, >=2 roots or a cycle; the '
        'class histogram counts graphs, not batches.')
ASSUMPTIONS = [
    'roots/leaves: a self-loop counts as a declared hypernym/hyponym; leaves are only compared '
    'when the reciprocal hyponym relations are declared (otherwise "without hyponyms" is '
    'ambiguous); for pos a/s both the merged and the exact-pos result are accepted (the docs of '
    'roots/leaves say "only the specified part of speech", the quantifier says a/s merge)',
    'lowest_common_hypernyms is compared on DAGs only; "depth" = max_depth (docs: "furthest from '
    'the root"); taxonomy_depth = the largest max_depth of the part of speech, on every graph',
    'simulate_root on cyclic graphs: only termination, no error, genuine path, symmetry, '
    'lowest subset of common (the statement does not say where the simulated root attaches '
    'when a chain ends inside a cycle)',
    'a synset without hypernyms may report no hypernym path as [] or as one empty path',
    'random graphs on 5-8 nodes are thinned to at most 120 maximal simple chains in total',
    'termination guard: 600-900 s per batch, about 1000x the measured cost',
]
SHARDS = {'quick': 4, 'thorough': 16}

_MAX_DISCS = 12


# ---------------------------------------------------------------------------
# oracle

def _names(idx, synsets):
    """Node indices of a list of Synset objects; anything unknown becomes 'R'."""
    return [idx.get(s.id, 'R') for s in synsets]


def _check_graph(lab, i, desc, out):
    import wn.taxonomy as T

    d = G.norm(desc)
    n = d['n']
    g = G.Graph.of(d)
    cyclic = G.has_cycle(g)
    gr = None if cyclic else G.with_root(g)
    R = n                                   # index of the simulated root in gr
    where = f'g{i}[n={n} mask={d["mask"]}]'

    def disc(kind, what, expected, got, note=''):
        if len(out) < _MAX_DISCS:
            out.append(Disc(kind, f'{where} {what}', expected, got,
                            note or ('cyclic' if cyclic else 'dag')))

    def call(what, fn, *args, **kwargs):
        """value, or None after recording an unexpected exception / wn.Error."""
        st_, val = G.guarded(fn, *args, **kwargs)
        if st_ == 'ok':
            return val
        if st_ == 'wn.Error':
            disc('unexpected-wn-error', what, 'a result', val)
        else:
            disc(f'exception:{val[0]}', f'{what} in {val[1]}', 'no exception', val[2])
        return None

    w = lab.wordnet(i)
    ss = lab.synsets(i, w)
    idx = {s.id: k for k, s in enumerate(ss)}
    ref = lambda x: 'R' if x == R else x      # noqa: E731

    # -- wordnet level -----------------------------------------------------
    def of_pos(nodes, pos):
        if pos is None:
            return sorted(nodes)
        return sorted(k for k in nodes if G.pos_class(d['pos'][k]) == G.pos_class(pos)
                      and (pos in 'as' or d['pos'][k] == pos))

    def strict(nodes, pos):
        return sorted(k for k in nodes if d['pos'][k] == pos)

    for pos in (None, 'n', 'v', 'a', 's'):
        # roots()/leaves() document "only synsets with the specified part of speech" while
        # the implementation (and the property's quantifier) merge a and s: accept either.
        got = call(f'roots(pos={pos})', T.roots, w, pos)
        if got is not None:
            exp = of_pos(G.true_roots(g), pos)
            names = sorted(_names(idx, got), key=str)
            if names != exp and not (pos and names == strict(G.true_roots(g), pos)):
                disc('roots-differ', f'roots(pos={pos})', exp, _names(idx, got))
        got = call(f'leaves(pos={pos})', T.leaves, w, pos)
        if got is not None and d['recip']:
            exp = of_pos(G.true_leaves(g), pos)
            names = sorted(_names(idx, got), key=str)
            if names != exp and not (pos and names == strict(G.true_leaves(g), pos)):
                disc('leaves-differ', f'leaves(pos={pos})', exp, _names(idx, got))
        if pos is not None:
            got = call(f'taxonomy_depth(pos={pos})', T.taxonomy_depth, w, pos)
            if got is not None:
                # the longest maximal simple chain of the part of speech = the largest
                # max_depth; defined on cyclic graphs too (known finding there, see
                # known_findings.json: a shortcut that is only sound on DAGs)
                exp = G.longest_chain(g, of_pos(range(n), pos))
                if got != exp:
                    disc('taxonomy-depth-differs', f'taxonomy_depth(pos={pos})', exp, got)

    # -- per node -------------------------------------------------------------
    for sr in (False, True):
        rg = gr if sr else g
        for x in range(n):
            via_method = (x + sr) % 2 == 0
            s = ss[x]
            if via_method:
                paths = call(f'hypernym_paths({x},sr={sr})', s.hypernym_paths, simulate_root=sr)
                mind = call(f'min_depth({x},sr={sr})', s.min_depth, simulate_root=sr)
                maxd = call(f'max_depth({x},sr={sr})', s.max_depth, simulate_root=sr)
            else:
                paths = call(f'hypernym_paths({x},sr={sr})', T.hypernym_paths, s, sr)
                mind = call(f'min_depth({x},sr={sr})', T.min_depth, s, sr)
                maxd = call(f'max_depth({x},sr={sr})', T.max_depth, s, sr)
            if rg is None:
                continue                     # cyclic + simulated root: termination only
            exp = sorted((tuple(ref(v) for v in c) for c in G.chains(rg, x)), key=str)
            if paths is not None:
                got = sorted((tuple(_names(idx, p)) for p in paths), key=str)
                if got != exp and not (exp == [] and got == [()]):
                    disc('hypernym-paths-differ', f'hypernym_paths({x},sr={sr})', exp, got)
            if mind is not None and mind != min((len(c) for c in exp), default=0):
                disc('min-depth-differs', f'min_depth({x},sr={sr})',
                     min((len(c) for c in exp), default=0), mind)
            if maxd is not None and maxd != max((len(c) for c in exp), default=0):
                disc('max-depth-differs', f'max_depth({x},sr={sr})',
                     max((len(c) for c in exp), default=0), maxd)

    # -- per ordered pair -----------------------------------------------------
    pairs = desc.get('pairs') or [[a, b] for a in range(n) for b in range(n)]
    splen = {}
    for sr in (False, True):
        rg = gr if sr else g
        for a, b in pairs:
            via_method = (a + b + sr) % 2 == 1
            sa, sb = ss[a], ss[b]
            tag = f'({a},{b},sr={sr})'
            real_common = G.common(g, a, b)

            # common_hypernyms: intersection of the reflexive ancestor sets
            if via_method:
                got = call('common_hypernyms' + tag, sa.common_hypernyms, sb, simulate_root=sr)
            else:
                got = call('common_hypernyms' + tag, T.common_hypernyms, sa, sb, sr)
            common_names = None
            if got is not None:
                common_names = _names(idx, got)
                real = sorted(k for k in common_names if k != 'R')
                fake = [k for k in common_names if k == 'R']
                if real != sorted(real_common):
                    disc('common-hypernyms-differ', 'common_hypernyms' + tag,
                         sorted(real_common), common_names)
                if (fake and not sr) or len(fake) > 1:
                    disc('common-hypernyms-extra', 'common_hypernyms' + tag,
                         'only synsets of the graph' + (' and one simulated root' if sr else ''),
                         [s_.id for s_ in got])
                if sr and not got:
                    disc('simulate-root-shares-nothing', 'common_hypernyms' + tag,
                         'non-empty', [])

            # lowest_common_hypernyms
            if via_method:
                got = call('lowest_common_hypernyms' + tag, sa.lowest_common_hypernyms, sb,
                           simulate_root=sr)
            else:
                got = call('lowest_common_hypernyms' + tag, T.lowest_common_hypernyms, sa, sb, sr)
            if got is not None:
                low = _names(idx, got)
                if rg is not None and not cyclic:
                    exp = sorted((ref(c) for c in G.lowest_common(rg, a, b)), key=str)
                    if sorted(low, key=str) != exp:
                        disc('lowest-common-hypernyms-differ', 'lowest_common_hypernyms' + tag,
                             exp, low)
                else:
                    allowed = set(real_common) | ({'R'} if sr else set())
                    if not set(low) <= allowed:
                        disc('lowest-not-subset-of-common', 'lowest_common_hypernyms' + tag,
                             sorted(allowed, key=str), low)
                    if bool(low) != bool(real_common or sr):
                        disc('lowest-emptiness-differs', 'lowest_common_hypernyms' + tag,
                             'non-empty' if (real_common or sr) else 'empty', low)

            # shortest_path
            if via_method:
                st_, val = G.guarded(sa.shortest_path, sb, simulate_root=sr)
            else:
                st_, val = G.guarded(T.shortest_path, sa, sb, sr)
            what = 'shortest_path' + tag
            if st_ == 'exception':
                disc(f'exception:{val[0]}', f'{what} in {val[1]}', 'no exception', val[2])
                continue
            shared = bool(real_common) or sr
            if st_ == 'wn.Error':
                if shared:
                    disc('shortest-path-error-though-connected', what, 'a path', val)
                continue
            if not shared:
                disc('shortest-path-without-common-hypernym', what, 'wn.Error',
                     _names(idx, val))
                continue
            p = _names(idx, val)
            splen[(a, b, sr)] = len(p)
            if (a == b) != (len(p) == 0):
                disc('shortest-path-emptiness', what, 'empty iff a is b', p)
                continue
            if a == b:
                continue
            if p[-1] != b:
                disc('shortest-path-does-not-end-at-target', what, b, p)
            if p.count('R') > (1 if sr else 0):
                disc('shortest-path-through-unknown-synset', what, 'synsets of the graph', p)
            seq = [a] + p
            for u, v in zip(seq, seq[1:]):
                if u == 'R' or v == 'R':
                    if rg is not None and not rg.linked(R if u == 'R' else u,
                                                        R if v == 'R' else v):
                        disc('shortest-path-not-a-path', what, 'root link to a true root',
                             seq)
                        break
                elif not g.linked(u, v):
                    disc('shortest-path-not-a-path', what,
                         'consecutive synsets linked by hypernymy', seq)
                    break
            if rg is not None:
                exp = G.sp_len(rg, a, b)
                if len(p) != exp:
                    disc('shortest-path-length-differs', what, exp, seq)
            elif real_common:
                bound = G.sp_len(g, a, b)    # cyclic + simulated root: cannot be longer
                if len(p) > bound:
                    disc('shortest-path-length-differs', what, f'<= {bound}', seq)
    for (a, b, sr), ln in sorted(splen.items()):
        if (b, a, sr) in splen and a < b and splen[(b, a, sr)] != ln:
            disc('shortest-path-length-asymmetric', f'shortest_path({a},{b},sr={sr})',
                 ln, splen[(b, a, sr)])


def oracle(case):
    out: list = []
    lab = G.Lab(case['graphs'])
    for i, desc in enumerate(case['graphs']):
        _check_graph(lab, i, desc, out)
        if len(out) >= _MAX_DISCS:
            break
    return out


# ---------------------------------------------------------------------------
# classification, enumeration, strategies

def _classify(case):
    tags = []
    non = False
    for d in case['graphs']:
        t = G.features(d)
        if d.get('family'):
            t.append('family:' + d['family'])
        non = non or bool(set(t) & {'multiple-inheritance', '>=2-roots', 'has-cycle'})
        tags.extend(t)
    return non, tags


def _sample(case):
    return {'graphs': len(case['graphs']), 'first': case['graphs'][:3]}


_BATCH_SMALL = 32
_BATCH_4 = 16


def _enum_small(tier, shard, nshards):
    items = [(n, m, v) for (n, m) in G.small_graph_index() for v in (0, 1)]
    for bi, batch in enumerate(G.batches(items, _BATCH_SMALL)):
        if bi % nshards == shard:
            yield {'graphs': [G.derived(n, m, v) for (n, m, v) in batch]}


def _enum_4(tier, shard, nshards):
    if tier != 'thorough':
        return
    items = [(4, m, G.mix(m) & 1) for m in range(G.graph_count(4))]
    for bi, batch in enumerate(G.batches(items, _BATCH_4)):
        if bi % nshards == shard:
            yield {'graphs': [G.derived(n, m, v) for (n, m, v) in batch]}


def _drawn_4(tier):
    m4 = st.one_of(G.masks(4), G.masks(4), G.dag_biased(4), G.cycle_biased(4), G.layered(4))
    return G.batch_of(G.drawn_graph(4, m4), (1, 8, 6, 10, 8, 9))


@st.composite
def _big_graph(draw):
    d = draw(G.random_graph(5, 8))
    n = d['n']
    if n > 5:
        allp = [[a, b] for a in range(n) for b in range(n)]
        d['pairs'] = sorted(draw(st.lists(st.sampled_from(allp), min_size=16, max_size=16,
                                          unique_by=tuple)))
    return d


@st.composite
def _split_graph(draw):
    """A graph whose nodes are divided between a lexicon and an extension of it."""
    n = draw(st.integers(2, 6))
    if n <= 4:
        d = draw(G.drawn_graph(n, st.one_of(G.masks(n), G.dag_biased(n), G.forest(n))))
    else:
        d = draw(G.random_graph(n, n))
    d['split'] = draw(st.integers(1, (1 << n) - 1)) | 2        # node 1 at least
    d['split'] &= ~1
    return d


def _split(tier):
    return G.batch_of(_split_graph(), (1, 4, 6, 8))


def _classify_split(case):
    non, tags = _classify(case)
    for d in case['graphs']:
        g = G.Graph.of(G.norm(d))
        sp = G.norm(d)['split']
        roots = G.true_roots(g)
        if any(sp >> r & 1 for r in roots) and any(not sp >> r & 1 for r in roots):
            tags.append('roots-in-both-lexicons')
        if any((sp >> i & 1) != (sp >> j & 1) for i, j in g.edges):
            tags.append('edge-crosses-lexicons')
    return True, tags


def _random_big(tier):
    return G.batch_of(_big_graph(), (1, 3, 2, 4, 3, 4))


# ---------------------------------------------------------------------------
# interlingual graphs: hypernymy borrowed from expand lexicons, gaps become placeholders

_HYP = ('hypernym', 'instance_hypernym')


@st.composite
def _il_drawn(draw):
    from . import c11
    case = draw(c11._x_cases())
    E1, L = case['lexicons']['E:1'], case['lexicons']['L:1']
    if len(E1['synsets']) >= 3 and len(L['synsets']) >= 2 and draw(st.booleans()):
        # two synsets of L below a chain of two concepts L lacks
        a, g1, g2 = E1['synsets'][:3]
        a['ili'] = L['synsets'][0]['ili'] = 'i1'
        g1['ili'], g2['ili'] = 'ix', 'iy'
        for src, tgt in ((a, g1), (g1, g2)):
            src.setdefault('relations', []).append(
                {'target': tgt['id'], 'relType': 'hypernym', 'meta': None})
        L['synsets'][1]['ili'] = draw(st.sampled_from(['i1', 'ix2']))
        if L['synsets'][1]['ili'] == 'ix2' and len(E1['synsets']) >= 4:
            b = E1['synsets'][3]
            b['ili'] = 'ix2'
            b.setdefault('relations', []).append(
                {'target': draw(st.sampled_from([g1['id'], g2['id']])),
                 'relType': 'hypernym', 'meta': None})
        if case['expand'] in ('', None):
            case['expand'] = draw(st.sampled_from(['E:1', '*']))
    if case['selection'] == 'L:1 E:1':
        # with two selected lexicons wn tells apart placeholders of one ILI by the lexicon of
        # the synset they were created from; the reference identifies them by ILI alone
        case['selection'] = 'L:1'
    return case


def _il_cases(tier):
    return _il_drawn()


def _il_classify(case):
    from . import c11, c12
    from ..refdb import RefDB
    ref = RefDB()
    for spec in case['order']:
        ref.add_resource({'lmf_version': '1.1', 'lexicons': [case['lexicons'][spec]]})
    view = c12._view(ref, case)
    tags = set()
    anc = {r.key: set(c11._x_reach(view, r, _HYP)) | {r.key} for r in view.synsets()}
    rs = list(view.synsets())
    for a in rs:
        for b in rs:
            if a is b or a.owner is not b.owner:
                continue
            common = anc[a.key] & anc[b.key]
            ph = [k for k in common if k.startswith('*INFERRED*')]
            if ph:
                tags.add('common-placeholder-ancestor')
            if len(ph) >= 2:
                tags.add('common->=2-placeholder-ancestors')
    return bool(tags), sorted(tags)


def _il_oracle(case):
    from . import c11, c12
    from .. import observe
    from ..observe import key_of, _raised
    ref = c12._setup(case)
    view = c12._view(ref, case)
    w, _warns = observe.make_wordnet(case['selection'], None, case['expand'])
    if _raised(w):
        return [Disc('wordnet-raises', '', 'Wordnet object', w)]
    out = []
    bykey = {key_of(x): x for x in w.synsets()}
    rs = [r for r in view.synsets() if r.key in bykey]
    anc = {r.key: set(c11._x_reach(view, r, _HYP)) | {r.key} for r in rs}
    for a in rs:
        for b in rs:
            if a.owner is not b.owner:
                continue
            exp = sorted(anc[a.key] & anc[b.key])
            got = observe.call(bykey[a.key].common_hypernyms, bykey[b.key])
            if not _raised(got):
                got = sorted({c12._kstr(key_of(x)) for x in got})
            if got != exp:
                out.append(Disc('interlingual:common-hypernyms-differ',
                                f'common_hypernyms({a.key},{b.key})', exp, got))
                if len(out) >= _MAX_DISCS:
                    return out
                continue
            low = observe.call(bykey[a.key].lowest_common_hypernyms, bykey[b.key])
            if _raised(low):
                out.append(Disc('interlingual:lowest-raises',
                                f'lowest_common_hypernyms({a.key},{b.key})', 'a list', low))
            else:
                lk = {c12._kstr(key_of(x)) for x in low}
                if not lk <= set(exp) or (exp and not lk):
                    out.append(Disc('interlingual:lowest-not-among-common',
                                    f'lowest_common_hypernyms({a.key},{b.key})',
                                    {'nonempty subset of': exp}, sorted(lk)))
    if out or case['selection'] != 'L:1':
        # (in default mode a lexicon and its extensions act like several selected lexicons: wn
        # tells apart placeholders of one ILI by the lexicon they were created from - DESIGN 8)
        return out
    # hypernym_paths / min_depth / max_depth of every synset against the path enumeration on the
    # mapped graph
    for a in rs:
        exp = sorted(c12.reference_paths(view, a, _HYP))
        got = observe.call(bykey[a.key].hypernym_paths)
        if not _raised(got):
            got = sorted([c12._kstr(key_of(x)) for x in path] for path in got)
        if got != exp:
            out.append(Disc('interlingual:hypernym-paths-differ', f'hypernym_paths({a.key})',
                            exp, got))
            if len(out) >= _MAX_DISCS:
                return out
            continue
        depths = [len(p) for p in exp] or [0]
        gd = [observe.call(bykey[a.key].min_depth), observe.call(bykey[a.key].max_depth)]
        if gd != [min(depths), max(depths)]:
            out.append(Disc('interlingual:depth-differs', f'min/max_depth({a.key})',
                            [min(depths), max(depths)], gd))
    if out:
        return out
    # shortest_path between any two nodes of the mapped graph, placeholders included: the
    # objects are the ones wn itself hands out on hypernym paths
    for a in rs:
        nodes = _il_nodes(view, a)                  # {key string: reference node}
        objs = {a.key: bykey[a.key]}
        paths = observe.call(bykey[a.key].hypernym_paths)
        if _raised(paths):
            continue
        for path in paths:
            for x in path:
                objs.setdefault(c12._kstr(key_of(x)), x)
        dist = {k: _il_dist(view, n, a.owner) for k, n in nodes.items() if k in objs}
        for ka in sorted(dist):
            for kb in sorted(dist):
                common = set(dist[ka]) & set(dist[kb])
                exp = min((dist[ka][c] + dist[kb][c] for c in common), default=None)
                got = observe.call(objs[ka].shortest_path, objs[kb])
                if exp is None:
                    ok = _raised(got)
                else:
                    ok = (not _raised(got)) and len(got) == exp and \
                        (not got or c12._kstr(key_of(got[-1])) == kb)
                if not ok:
                    out.append(Disc('interlingual:shortest-path-differs',
                                    f'shortest_path({ka},{kb}) from {a.key}',
                                    'wn.Error' if exp is None else f'{exp} step(s) ending at {kb}',
                                    got if _raised(got)
                                    else [c12._kstr(key_of(x)) for x in got]))
                    if len(out) >= _MAX_DISCS:
                        return out
    return out


def _il_nodes(view, start):
    """{key string: reference node} of a real synset and everything above it."""
    from . import c12
    nodes = {start.key: start}
    todo = [start]
    while todo:
        n = todo.pop(0)
        for k in c12._related(view, n, _HYP, start.owner):
            ks = c12._kstr(k)
            if ks not in nodes:
                nodes[ks] = c12._node_of(view, k)
                todo.append(nodes[ks])
    return nodes


def _il_dist(view, node, owner):
    """{key string: least number of hypernym steps} from a node (itself: 0)."""
    from . import c12
    me = node.key if not isinstance(node, tuple) else f'*INFERRED*[{node[1]}]'
    dist = {me: 0}
    todo = [(node, 0)]
    while todo:
        n, d = todo.pop(0)
        for k in c12._related(view, n, _HYP, owner):
            ks = c12._kstr(k)
            if ks not in dist:
                dist[ks] = d + 1
                todo.append((c12._node_of(view, k), d + 1))
    return dist


SUBS = [
    Sub('interlingual', _il_oracle, _il_classify, strategy=_il_cases,
        budget={'quick': 250, 'thorough': 1500}, case_timeout=120, timeout_is_violation=True,
        sample=lambda c: c, require_tags=('common->=2-placeholder-ancestors',)),
    Sub('split-lexicons', oracle, _classify_split, strategy=_split,
        budget={'quick': 30, 'thorough': 400}, case_timeout=600, timeout_is_violation=True,
        sample=_sample, purge_every=8,
        require_tags=('roots-in-both-lexicons', 'edge-crosses-lexicons')),
    Sub('enum-n<=3', oracle, _classify, enumerate=_enum_small,
        exhaustive_note='all 530 labelled digraphs (self-loops included) on 1-3 nodes, each '
                        'with a plain and a labelled a/s variant; all ordered pairs; '
                        'simulate_root False and True',
        case_timeout=600, timeout_is_violation=True, sample=_sample, purge_every=8,
        require_tags=('has-cycle', 'multiple-inheritance', '>=2-roots', 'self-loop', 'diamond',
                      'a/s-mix', 'instance-edges', 'no-reciprocal')),
    Sub('enum-n=4', oracle, _classify, enumerate=_enum_4,
        exhaustive_note='thorough tier: all 65536 labelled digraphs on 4 nodes (labelling and '
                        'pos layout a fixed function of the edge mask); all ordered pairs',
        case_timeout=900, timeout_is_violation=True, sample=_sample, purge_every=8),
    Sub('drawn-n=4', oracle, _classify, strategy=_drawn_4,
        budget={'quick': 40, 'thorough': 25},
        case_timeout=600, timeout_is_violation=True, sample=_sample, purge_every=8),
    Sub('random-n=5..8', oracle, _classify, strategy=_random_big,
        budget={'quick': 30, 'thorough': 34},
        case_timeout=900, timeout_is_violation=True, sample=_sample, purge_every=8,
        require_tags=('family:dag', 'family:cyclic', 'family:forest', 'family:diamonds', 'family:via-root',
                      'family:layered', 'family:two-lcs', '>=2-LCS')),
]
