"""C15 - Information-content weights are conserved, counted once and monotone."""

from __future__ import annotations

import math
from collections import Counter

from hypothesis import strategies as st

from .. import env
from .. import graphs as G
from ..harness import Disc, Sub

PROPERTY = 'C15'
LEVEL = 'exploration'
RULE = ('A case is a batch of 2-4 graph-lab hypernym digraphs on 2-7 synsets (DAG-biased, '
        'cycle-biased, forest, diamond-stack, layered, two-LCS families; <=60 maximal chains), '
        'each weakly connected component inside one information-content class (n, v, r, or a '
        'with an a/s mix), with an entry layer: 1..n+2 lexical entries whose lemmas come from a '
        'small pool (so written forms are shared between entries: ambiguous words; multi-word '
        'forms), 1-3 senses each, optional further forms. Per graph 1-2 compute() runs: a '
        'corpus of 0-12 tokens drawn from the stored forms and from clearly unknown tokens '
        '(repetitions arise naturally), distribute_weight in {True, False}, smoothing in '
        '{0, 0.5, 1, 2}. Oracle: every weight and every per-class total equals the closed form '
        'of the statement (weight of a word added to each synset of the word and to each of its '
        'reflexive-transitive hypernym ancestors once); weights never decrease along a hypernym '
        'edge; for smoothing > 0: 0 < synset_probability <= 1, information_content = -log p >= 0 '
        'and not larger for a hypernym than its hyponym; dropping the unknown tokens changes '
        'nothing. Graphs without satellite synsets may carry a generated WordNet::Similarity file '
        '(header, "<offset><pos> <weight> [ROOT]" lines for a subset of the synsets): load() must '
        'return weight per listed synset, 0 for the others, totals = sum of the ROOT lines, with '
        'the default id formatter and with a custom get_synset_id. Non-trivial graph: a corpus '
        'word one of whose synsets has two hypernym paths converging, or an ambiguous corpus '
        'word; the class histogram counts graphs, not batches. Sub interlingual: a sparse '
        'lexicon (one word per synset) whose taxonomy comes from expand lexicons, with a constructed '
        'chain of two concepts it lacks and a concept it has above them: compute() must not fail, '
        'placeholders carry no weight, every real synset gets smoothing + the counts of the words '
        'at or below it on the ILI-mapped reference graph.')
ASSUMPTIONS = [
    'hypernym edges stay inside one information-content class (n, v, a+s, r): cross-class edges '
    'are outside the documented use of wn.ic',
    'written forms and tokens are lower-case ASCII (letters, digits, punctuation), so the default normalizer is the identity and '
    'a token is "found" iff it equals a stored form; unknown tokens stay unknown after '
    'normalization; the empty token is not generated',
    'distributed weight = count / number of distinct synsets of the word (docs formula)',
    'relative tolerance 1e-9 on weights, probabilities and information content',
    'weights files use the parts of speech n, v, a, r only (as WordNet::Similarity files do); '
    'unlisted synsets are expected with weight 0 ("same structure" as compute)',
]
SHARDS = {'quick': 4, 'thorough': 16}

_TOL = 1e-9
_IC_POS = ('n', 'v', 'a', 'r')
_MAX_PER_KIND = 3
_MAX_DISCS = 18

# written forms need not contain letters (WordNet has '24/7', '9/11', '1000'): the statement
# only lets *unknown* words be ignored
LEMMAS = ['ab', 'cd', 'ef', 'gh', 'ab cd', 'ef gh ij', 'kl', '24/7', '1000', '9-11 x', '&']
OTHER_FORMS = ['abs', 'cds', 'efs', 'ab cds']
UNKNOWN = ['zzz', 'qq rr', 'unknown9', 'abx', '25/8', '...', '7']


def _close(a, b):
    return (isinstance(a, (int, float)) and isinstance(b, (int, float))
            and math.isclose(a, b, rel_tol=_TOL, abs_tol=1e-12))


class _Out:
    def __init__(self):
        self.discs = []
        self.kinds = {}

    def add(self, disc):
        k = self.kinds.get(disc.kind, 0)
        if k < _MAX_PER_KIND and len(self.discs) < _MAX_DISCS:
            self.discs.append(disc)
        self.kinds[disc.kind] = k + 1

    def full(self):
        return len(self.discs) >= _MAX_DISCS


# ---------------------------------------------------------------------------
# reference

def reference_weights(desc, corpus, distribute, smoothing):
    """Closed form of the statement: ({class: total}, [weight per node])."""
    d = G.norm(desc)
    g = G.Graph.of(d)
    cls = [G.pos_class(p) for p in d['pos']]
    total = {p: float(smoothing) for p in _IC_POS}
    freq = [float(smoothing)] * d['n']
    counts = Counter(corpus)
    for token in sorted(counts):
        nodes = G.word_synsets(d, token)
        if not nodes:
            continue
        wt = counts[token] / len(nodes) if distribute else float(counts[token])
        for s in nodes:
            if cls[s] not in total:
                continue
            total[cls[s]] += wt
            for c in sorted(G.ancestors(g, s)):
                freq[c] += wt
    return total, freq


# ---------------------------------------------------------------------------
# oracle

def _compare_freq(disc, what, got, exp_total, exp_freq, ids, cls):
    """Whole structure, both directions."""
    if not isinstance(got, dict) or set(got) != set(_IC_POS):
        disc('freq-structure', what, sorted(_IC_POS),
             sorted(map(str, got)) if isinstance(got, dict) else repr(got)[:100])
        return False
    ok = True
    for p in _IC_POS:
        exp_keys = {ids[k] for k in range(len(ids)) if cls[k] == p}
        got_keys = set(got[p]) - {None}
        if got_keys != exp_keys or None not in got[p]:
            disc('freq-structure', f'{what} freq[{p}]', sorted(exp_keys) + ['None'],
                 sorted(map(str, got[p])))
            ok = False
            continue
        if not _close(got[p][None], exp_total[p]):
            disc('total-differs', f'{what} freq[{p}][None]', exp_total[p], got[p][None])
            ok = False
    for k, sid in enumerate(ids):
        p = cls[k]
        if p in got and sid in got[p] and not _close(got[p][sid], exp_freq[k]):
            disc('weight-differs', f'{what} synset {k}', exp_freq[k], got[p][sid])
            ok = False
    return ok


def _check_compute(lab, i, desc, out):
    import wn.ic

    d = G.norm(desc)
    n = d['n']
    g = G.Graph.of(d)
    cls = [G.pos_class(p) for p in d['pos']]
    ids = lab.ids(i)
    where = f'g{i}[n={n} mask={d["mask"]} pos={d["pos"]}]'

    w = lab.wordnet(i)
    ss = lab.synsets(i, w)

    for q, run in enumerate(desc.get('runs') or []):
        corpus, dist, smooth = run['corpus'], run['distribute'], run['smoothing']
        tag = f'run{q}(distribute={dist},smoothing={smooth})'

        def disc(kind, what, expected, got, note=''):
            out.add(Disc(kind, f'{where} {tag} {what}', expected, got, note))

        def call(what, fn, *args, **kwargs):
            st_, val = G.guarded(fn, *args, **kwargs)
            if st_ == 'ok':
                return val
            if st_ == 'wn.Error':
                disc('unexpected-wn-error', what, 'a result', val)
            else:
                out.add(Disc(f'exception:{val[0]}', f'{where} in {val[1]}', 'no exception',
                             val[2], f'{tag} {what}'))
            return None

        # "an iterable of string tokens": a list, or a one-shot iterator / generator
        shape = len(corpus) % 3
        given = list(corpus) if shape == 0 else iter(list(corpus)) if shape == 1 \
            else (t for t in list(corpus))
        freq = call('compute', wn.ic.compute, given, w, distribute_weight=dist,
                    smoothing=smooth)
        if freq is None:
            continue
        exp_total, exp_freq = reference_weights(d, corpus, dist, smooth)
        if not _compare_freq(disc, 'compute', freq, exp_total, exp_freq, ids, cls):
            # consequences below are still checked on what wn returned, where it is usable
            if not (isinstance(freq, dict) and all(
                    p in freq and isinstance(freq[p], dict) and None in freq[p]
                    and all(ids[k] in freq[p] for k in range(n) if cls[k] == p)
                    for p in _IC_POS)):
                continue

        def wt(k):
            return freq[cls[k]][ids[k]]

        # weights never decrease going up
        for x, y in g.edges:
            if wt(y) < wt(x) and not _close(wt(y), wt(x)):
                disc('weight-decreases-upwards', f'edge {x}->{y}', f'>= {wt(x)}', wt(y))

        # unknown words are ignored
        known = [t for t in corpus if G.word_synsets(d, t)]
        if len(known) != len(corpus):
            again = call('compute without unknown tokens', wn.ic.compute, known, w,
                         distribute_weight=dist, smoothing=smooth)
            if again is not None:
                same = (isinstance(again, dict) and set(again) == set(freq) and all(
                    set(again[p]) == set(freq[p])
                    and all(_close(again[p][key], freq[p][key]) for key in freq[p])
                    for p in freq))
                if not same:
                    disc('unknown-tokens-change-weights', 'compute', again, freq)

        if smooth <= 0:
            continue
        info = {}
        for k in range(n):
            total = freq[cls[k]][None]
            p = call(f'synset_probability({k})', wn.ic.synset_probability, ss[k], freq)
            if p is not None:
                if not _close(p, wt(k) / total):
                    disc('probability-not-freq-over-total', f'synset {k}', wt(k) / total, p)
                if not (0 < p and (p <= 1 or _close(p, 1.0))):
                    disc('probability-out-of-range', f'synset {k}', '(0, 1]', p)
            v = call(f'information_content({k})', wn.ic.information_content, ss[k], freq)
            if v is not None:
                info[k] = v
                if not _close(v, -math.log(wt(k) / total)):
                    disc('information-content-not-minus-log-p', f'synset {k}',
                         -math.log(wt(k) / total), v)
                if v < 0 and not _close(v, 0.0):
                    disc('information-content-negative', f'synset {k}', '>= 0', v)
        for x, y in g.edges:
            if x in info and y in info and info[y] > info[x] and not _close(info[y], info[x]):
                disc('hypernym-more-informative-than-hyponym', f'edge {x}->{y}',
                     f'<= {info[x]}', info[y])


def _check_load(lab, i, desc, out, workdir):
    import wn.ic

    spec = desc.get('load')
    if not spec:
        return
    d = G.norm(desc)
    n = d['n']
    cls = [G.pos_class(p) for p in d['pos']]
    ids = lab.ids(i)
    where = f'g{i}[n={n} mask={d["mask"]} pos={d["pos"]}] load(custom_ids={spec["custom"]})'

    def disc(kind, what, expected, got, note=''):
        out.add(Disc(kind, f'{where} {what}', expected, got, note))

    lines = [f'wnver::{spec.get("header", "eOS9lXC6GvMWznF1wkZofDdtbBU")}']
    exp_total = {p: 0.0 for p in _IC_POS}
    exp_freq = [0.0] * n
    for k, text, is_root in spec['lines']:
        lines.append(f'{k + 1}{d["pos"][k]} {text}' + (' ROOT' if is_root else ''))
        exp_freq[k] = float(text)
        if is_root:
            exp_total[cls[k]] += float(text)
    path = workdir / f'ic-{i}.dat'
    path.write_text('\n'.join(lines) + '\n')

    w = lab.wordnet(i)
    if spec['custom']:
        def get_synset_id(*, offset, pos):
            return f'g{i}-s{offset - 1}'
        st_, val = G.guarded(wn.ic.load, path, w, get_synset_id=get_synset_id)
    else:
        st_, val = G.guarded(wn.ic.load, str(path), w)
    if st_ == 'wn.Error':
        disc('unexpected-wn-error', '', 'weights', val)
    elif st_ == 'exception':
        out.add(Disc(f'exception:{val[0]}', f'{where} in {val[1]}', 'no exception', val[2]))
    else:
        _compare_freq(disc, 'load', val, exp_total, exp_freq, ids, cls)


def oracle(case):
    out = _Out()
    lab = G.Lab(case['graphs'])
    workdir = None
    for i, desc in enumerate(case['graphs']):
        _check_compute(lab, i, desc, out)
        if desc.get('load'):
            workdir = workdir or env.new_dir('c15')
            _check_load(lab, i, desc, out, workdir)
        if out.full():
            break
    return out.discs


# ---------------------------------------------------------------------------
# classification and strategies

def _classify(case):
    tags = []
    non = False
    for d in case['graphs']:
        g = G.Graph.of(d)
        t = [f'n={d["n"]}', 'has-cycle' if G.has_cycle(g) else 'dag']
        if d.get('family'):
            t.append('family:' + d['family'])
        if 's' in d['pos']:
            t.append('satellite')
        t += sorted({'class:' + G.pos_class(p) for p in d['pos']})
        forms = [w['form'] for w in d.get('words') or []]
        if len(set(forms)) < len(forms):
            t.append('form-shared-by-entries')
        interesting = False
        for run in d.get('runs') or []:
            counts = Counter(run['corpus'])
            t.append(f'smoothing={run["smoothing"]}')
            t.append('distribute' if run['distribute'] else 'no-distribute')
            if not run['corpus']:
                t.append('empty-corpus')
            if any(c > 1 for c in counts.values()):
                t.append('repeated-token')
            for token in sorted(counts):
                nodes = G.word_synsets(d, token)
                if not nodes:
                    t.append('unknown-token')
                    continue
                if ' ' in token:
                    t.append('multi-word-token')
                if len(nodes) >= 2:
                    t.append('ambiguous-word')
                    interesting = True
                if any(G.converging(g, s) for s in nodes):
                    t.append('converging-paths-above-corpus-word')
                    interesting = True
                if any(d['pos'][s] == 's' for s in nodes):
                    t.append('corpus-word-in-satellite')
        if d.get('load'):
            t.append('load:custom-ids' if d['load']['custom'] else 'load:default-ids')
        non = non or interesting
        tags.extend(sorted(set(t)))
    return non, tags


def _sample(case):
    return {'graphs': len(case['graphs']), 'first': case['graphs'][:2]}


_FAMILIES = ['dag', 'cyclic', 'forest', 'diamonds', 'diamonds', 'layered', 'two-lcs']


@st.composite
def _graph(draw, tier):
    n = draw(st.sampled_from([4, 5, 6, 7, 3, 2, 5, 6]))
    fam = draw(st.sampled_from(_FAMILIES))
    mask = G._thin(n, draw(G.FAMILIES[fam](n)), 60)
    g = G.Graph(n, G.edges_of(n, mask))
    with_load = draw(st.integers(0, 3)) == 0
    pos = [''] * n
    for comp in G.weak_components(g):
        c = draw(st.sampled_from(['n', 'n', 'v', 'a', 'a', 'r']))
        for k in comp:
            pos[k] = draw(st.sampled_from('as')) if (c == 'a' and not with_load) else c
    full = (1 << (n * n)) - 1
    custom = draw(st.booleans())
    d = G.describe(n, mask, inst=draw(st.sampled_from([0, full, draw(st.integers(0, full))])),
                   pos=''.join(pos), recip=draw(st.booleans()),
                   ids='offset' if (with_load and not custom) else 'plain')
    d['family'] = fam
    # entry layer
    words = []
    for _ in range(draw(st.integers(1, n + 2))):
        nodes = draw(st.lists(st.integers(0, n - 1), min_size=1, max_size=3, unique=True))
        e = {'form': draw(st.sampled_from(LEMMAS)), 'pos': G.pos_class(pos[nodes[0]]),
             'nodes': nodes}
        extra = draw(st.lists(st.sampled_from(OTHER_FORMS), max_size=2, unique=True))
        if extra:
            e['forms'] = extra
        words.append(e)
    d['words'] = words
    stored = sorted({w['form'] for w in words} | {f for w in words for f in w.get('forms', [])})
    token = st.one_of(st.sampled_from(stored), st.sampled_from(stored),
                      st.sampled_from(stored + UNKNOWN))
    d['runs'] = [{'corpus': draw(st.lists(token, min_size=0 if draw(st.integers(0, 9)) == 0 else 1,
                                           max_size=12)),
                  'distribute': draw(st.booleans()),
                  'smoothing': draw(st.sampled_from([1.0, 0.5, 2.0, 0, 1.0]))}
                 for _ in range(draw(st.integers(1, 2)))]
    if with_load:
        listed = draw(st.lists(st.integers(0, n - 1), max_size=n, unique=True))
        roots = set(G.true_roots(g))
        weight = st.sampled_from(['1', '12', '3.5', '0.25', '1915712', '1000000.0', '7'])
        d['load'] = {'custom': custom,
                     'lines': [[k, draw(weight),
                                (k in roots) if draw(st.integers(0, 4)) else (k not in roots)]
                               for k in listed]}
    return d


def _cases(tier):
    return G.batch_of(_graph(tier), (1, 3, 2, 4, 3, 4))


# ---------------------------------------------------------------------------
# interlingual: the taxonomy of a sparse lexicon comes from expand lexicons; concepts it
# lacks are placeholders that carry no weight but pass it on

@st.composite
def _il_cases(draw):
    from . import c13
    case = draw(c13._il_drawn())
    L = case['lexicons']['L:1']
    L['entries'] = [{'id': f'L-e{i}', 'meta': None,
                     'lemma': {'writtenForm': f'w{i}', 'partOfSpeech': 'n'},
                     'senses': [{'id': f'L-e{i}-s', 'synset': ss['id'], 'meta': None}]}
                    for i, ss in enumerate(L['synsets'])]
    case['selection'] = 'L:1'
    n = len(L['synsets'])
    E1 = case['lexicons']['E:1']
    g2 = next((x for x in E1['synsets'] if x['ili'] == 'iy'), None)
    if g2 is not None and n >= 2 and draw(st.integers(0, 3)) > 0:
        # a concept L has above the two it lacks: the weight must arrive there
        E1['synsets'].append({'id': 'E1-top', 'ili': 'itop', 'partOfSpeech': 'n', 'meta': None})
        g2.setdefault('relations', []).append(
            {'target': 'E1-top', 'relType': 'hypernym', 'meta': None})
        L['synsets'][-1]['ili'] = 'itop'
    if n >= 2 and draw(st.integers(0, 3)) == 0:
        # the local synset for one concept is a verb: a hypernym chain of nouns that passes
        # through it (nothing in either file is invalid; across languages this happens)
        L['synsets'][draw(st.integers(1, n - 1))]['partOfSpeech'] = 'v'
    case['corpus'] = draw(st.lists(st.sampled_from([f'w{i}' for i in range(n)] + ['zzz', 'w0']),
                                   min_size=1, max_size=6))
    case['smoothing'] = draw(st.sampled_from([0.0, 1.0, 0.5]))
    return case


def _il_reach(case):
    from . import c11, c12
    from ..refdb import RefDB
    ref = RefDB()
    for spec in case['order']:
        ref.add_resource({'lmf_version': '1.1', 'lexicons': [case['lexicons'][spec]]})
    view = c12._view(ref, case)
    return {r.key.partition('|')[2]: c11._x_reach(view, r, ('hypernym', 'instance_hypernym'))
            for r in view.synsets()}


def _il_classify(case):
    reach = _il_reach(case)
    L = case['lexicons']['L:1']
    tags = set()
    pos_of = {ss['id']: ss['partOfSpeech'] for ss in L['synsets']}
    for tok in set(case['corpus']):
        if tok == 'zzz':
            continue
        sid0 = L['synsets'][int(tok[1:])]['id']
        if any(not k.startswith('*INFERRED*') and pos_of[k.partition('|')[2]] != pos_of[sid0]
               for k in reach[sid0]):
            tags.add('ancestor-of-another-pos')
        anc = reach[L['synsets'][int(tok[1:])]['id']]
        ph = [k for k in anc if k.startswith('*INFERRED*')]
        real = [k for k in anc if not k.startswith('*INFERRED*')]
        if ph:
            tags.add('corpus-word-below-placeholder')
        if ph and real:
            tags.add('real-ancestor-beyond-placeholder')
    return bool(tags), sorted(tags)


def _il_oracle(case):
    import wn
    import wn.ic
    from . import c12
    from .. import observe
    c12._setup(case)
    reach = _il_reach(case)
    w, _warns = observe.make_wordnet(case['selection'], None, case['expand'])
    L = case['lexicons']['L:1']
    ids = [ss['id'] for ss in L['synsets']]
    sm = case['smoothing']
    st_, got = G.guarded(wn.ic.compute, case['corpus'], w, distribute_weight=False, smoothing=sm)
    if st_ != 'ok':
        if st_ == 'wn.Error':
            return [Disc('interlingual:compute-raises', 'compute()', 'weights', got)]
        return [Disc(f'exception:{got[0]}', f'compute() in {got[1]}', 'no exception', got[2])]
    counts = Counter(t for t in case['corpus'] if t != 'zzz')
    pos_of = {ss['id']: ss['partOfSpeech'] for ss in L['synsets']}
    exp = {p: {i: sm for i in ids if pos_of[i] == p} for p in ('n', 'v')}
    total = {'n': sm, 'v': sm}
    open_ = set()     # ancestors of another part of speech than the word's synset: the statement
    #                   does not say which table (if any) their weight belongs to
    for tok, c in counts.items():
        sid = ids[int(tok[1:])]
        p = pos_of[sid]
        total[p] += c
        for k in {f'L:1|{sid}'} | set(reach[sid]):
            if k.startswith('*INFERRED*'):
                continue
            kid = k.partition('|')[2]
            if pos_of[kid] == p:
                exp[p][kid] += c
            else:
                open_.add(kid)
    out = []
    for p in ('n', 'v'):
        g = dict(got.get(p, {}))
        tot = g.pop(None, None)
        if not _close(tot, total[p]):
            out.append(Disc('interlingual:total-differs', f"freq[{p!r}][None]", total[p], tot))
        if sorted(g) != sorted(exp[p]):
            out.append(Disc('interlingual:weight-keys-differ', f"freq[{p!r}]", sorted(exp[p]),
                            sorted(g)))
            continue
        for i in exp[p]:
            if i not in open_ and not _close(g[i], exp[p][i]):
                out.append(Disc('interlingual:weight-differs', f"freq[{p!r}][{i}]", exp[p][i],
                                g[i]))
    return out[:_MAX_DISCS]


SUBS = [
    Sub('interlingual', _il_oracle, _il_classify, strategy=lambda tier: _il_cases(),
        budget={'quick': 60, 'thorough': 1000}, sample=lambda c: c, case_timeout=120,
        require_tags=('real-ancestor-beyond-placeholder', 'ancestor-of-another-pos')),
    Sub('compute-and-load', oracle, _classify, strategy=_cases,
        budget={'quick': 250, 'thorough': 1000}, sample=_sample, purge_every=10,
        case_timeout=600,
        require_tags=('converging-paths-above-corpus-word', 'ambiguous-word', 'has-cycle',
                      'satellite', 'corpus-word-in-satellite', 'unknown-token',
                      'multi-word-token', 'smoothing=0', 'distribute', 'no-distribute',
                      'load:custom-ids', 'load:default-ids', 'form-shared-by-entries')),
]
