"""C07 - The way a resource is supplied does not change what gets stored."""

from __future__ import annotations

import copy
import gzip
import hashlib
import lzma
import shutil
import tarfile
from pathlib import Path

from hypothesis import strategies as st

from .. import dumps, env, gen, observe, xmlw
from ..canon import diff, fingerprint
from ..harness import Disc, Sub
from ..refdb import RefDB

PROPERTY = 'C07'
LEVEL = 'exploration'
ROUTES = ['xml', 'gz', 'xz', 'package', 'collection',
          'tar:file', 'tar.gz:file', 'tar.xz:file',
          'tar:package', 'tar.gz:package', 'tar.xz:package',
          'tar:collection', 'tar.gz:collection', 'tar.xz:collection',
          'memory']
RULE = ('Hypothesis draws 1-3 mutually independent resources (distinct lexicon ids, disjoint ILI '
        'pools; a resource may hold a base and its extension), a writer style per resource and one '
        'of 15 supply routes (stratified over shards so every route is hit in every tier). '
        'Oracle: in a fresh database the route yields the same logical table dump and the same '
        'public-API observation as adding the plain XML files one by one (after the first round '
        'and at the fixed point of repeated adds), and files holding several lexicons reach the '
        'same fixed point as one plain XML file per lexicon (shapes constructed: another version '
        'of a lexicon in a file of its own; a base alone followed by a file with its extension '
        'and another version of the base); a further add of installed lexicons leaves the '
        'raw table dump unchanged; an extension whose base is absent leaves it unchanged; SHA-256 '
        'of all input files and the in-memory resource are unchanged. Non-trivial: route != xml; '
        'distinct by (documents, route).')
ASSUMPTIONS = [
    'lexicons of different resources in one case are mutually independent (C07 quantifier)',
    'cross-lexicon row order and the shared ILI inventory are not compared (logical dump)',
]

_BASE = dict(allow_no_pos_synset=False, allow_frame_without_id=False, lex_frame_senses=True)


@st.composite
def _cases(draw, route=None, versions=None, max_entries=3):
    route = route or draw(st.sampled_from(ROUTES))
    n = draw(st.integers(2, 3)) if 'collection' in route else draw(st.integers(1, 2))
    resources, styles = [], []
    for k in range(n):
        pool = tuple(f'i{k}{j}' for j in range(4))
        prof = gen.Profile(ili_pool=pool, max_entries=max_entries, max_synsets=3, **_BASE,
                           **({'versions': versions} if versions else {}))
        res = draw(gen.resources(prof, max_lexicons=2))
        # make lexicon ids distinct across resources
        ren = {}
        for lx in res['lexicons']:
            ren[lx['id']] = f'r{k}{lx["id"]}'
        res = _rename_lexicons(res, ren)
        resources.append(res)
        styles.append(draw(xmlw.styles()))
    if draw(st.integers(0, 2)) == 0:
        # another version of the first lexicon (same ids throughout) as a resource of its own:
        # "already installed" is a matter of id AND version
        first = next((lx for lx in resources[0]['lexicons'] if not lx.get('extends')), None)
        if first is not None:
            sib = copy.deepcopy(first)
            sib['version'] = first['version'] + draw(st.sampled_from(['.b', '-0', 'z']))
            where = draw(st.integers(0, len(resources)))
            resources.insert(where, {'lmf_version': resources[0]['lmf_version'],
                                     'lexicons': [sib]})
            styles.insert(where, draw(xmlw.styles()))
    elif draw(st.integers(0, 2)) == 0:
        # a base alone in one file; the next file holds its extension followed by another version
        # of the base (the ids the extension treats as external are that lexicon's own ids)
        for k, res in enumerate(resources):
            plain = [lx for lx in res['lexicons'] if not lx.get('extends')]
            exts = [lx for lx in res['lexicons'] if lx.get('extends')]
            if len(plain) == 1 and exts and exts[0]['extends']['id'] == plain[0]['id'] \
                    and res['lmf_version'] != '1.0':
                sib = copy.deepcopy(plain[0])
                sib['version'] = plain[0]['version'] + draw(st.sampled_from(['.b', '-0', 'z']))
                resources[k] = {'lmf_version': res['lmf_version'], 'lexicons': plain}
                resources.insert(k + 1, {'lmf_version': res['lmf_version'],
                                         'lexicons': exts + [sib]})
                styles.insert(k + 1, draw(xmlw.styles()))
                break
    orphan = draw(st.booleans())
    return {'resources': resources, 'styles': styles, 'route': route, 'orphan_extension': orphan}


def _rename_lexicons(res, ren):
    res = copy.deepcopy(res)
    for lx in res['lexicons']:
        lx['id'] = ren[lx['id']]
        if lx.get('extends') and lx['extends']['id'] in ren:
            lx['extends']['id'] = ren[lx['extends']['id']]
    return res


def _classify(case):
    tags = ['route:' + case['route']]
    for r in case['resources']:
        if any(lx.get('extends') for lx in r['lexicons']):
            tags.append('base+extension-in-one-file')
        if len(r['lexicons']) > 1:
            tags.append('multi-lexicon-file')
        kinds = ''.join('x' if lx.get('extends') else 'p' for lx in r['lexicons'])
        if 'xp' in kinds:
            tags.append('extension-then-plain-lexicon-in-one-file')
    ids = [lx['id'] for r in case['resources'] for lx in r['lexicons']]
    if len(set(ids)) < len(ids):
        tags.append('two-versions-of-one-id')
    return case['route'] != 'xml', sorted(set(tags))


def _sha_tree(path: Path) -> dict:
    out = {}
    if path.is_file():
        out[path.name] = hashlib.sha256(path.read_bytes()).hexdigest()
    else:
        for p in sorted(path.rglob('*')):
            if p.is_file():
                out[str(p.relative_to(path))] = hashlib.sha256(p.read_bytes()).hexdigest()
    return out


def _make_package(xml: Path, dest: Path, k: int) -> Path:
    dest.mkdir(parents=True)
    shutil.copyfile(xml, dest / f'wordnet{k}.xml')
    (dest / 'README.md').write_text('# readme\n<?xml not really\n')
    (dest / 'LICENSE').write_text('license text\n')
    (dest / 'citation.bib').write_text('@misc{x}\n')
    (dest / 'notes.txt').write_text('unrelated notes\nILI-like text but not in the first column: x\tili\n')
    return dest


def _tar(src: Path, dest: Path, mode: str) -> Path:
    with tarfile.open(dest, mode) as tf:
        tf.add(src, arcname=src.name)
    return dest


def _supplies(route: str, xmls: list, workdir: Path) -> list:
    """List of zero-argument callables performing the adds for one round,
    plus the list of input paths whose bytes must not change."""
    import wn
    import wn.lmf
    inputs = []
    calls = []
    kind, _, payload = route.partition(':')
    if route == 'memory':
        def mk(x):
            def f():
                res = wn.lmf.load(x, progress_handler=None)
                snap = copy.deepcopy(res)
                wn.add_lexical_resource(res, progress_handler=None)
                if res != snap:
                    raise _Mutated(diff(snap, res)[:3])
            return f
        return [mk(x) for x in xmls], list(xmls)
    if route in ('xml', 'gz', 'xz'):
        for k, x in enumerate(xmls):
            if route == 'xml':
                p = x
            elif route == 'gz':
                p = workdir / f'f{k}.xml.gz'
                data = x.read_bytes()
                if (k + len(data)) % 2:
                    # several concatenated members (cat a.gz b.gz, gzip >> f.gz): still one file
                    cut = [len(data) // 3, 2 * len(data) // 3]
                    p.write_bytes(b''.join(gzip.compress(c) for c in
                                           (data[:cut[0]], data[cut[0]:cut[1]], data[cut[1]:])))
                else:
                    with gzip.open(p, 'wb') as fh:
                        fh.write(data)
            else:
                p = workdir / f'f{k}.xml.xz'
                data = x.read_bytes()
                if (k + len(data)) % 2:
                    # several streams in one .xz file
                    p.write_bytes(lzma.compress(data[:len(data) // 2])
                                  + lzma.compress(data[len(data) // 2:]))
                else:
                    with lzma.open(p, 'wb') as fh:
                        fh.write(data)
            inputs.append(p)
            calls.append(lambda p=p: wn.add(p, progress_handler=None))
        return calls, inputs
    tarmode = {'tar': 'w', 'tar.gz': 'w:gz', 'tar.xz': 'w:xz'}.get(kind)
    payload = payload or kind
    if payload == 'file':
        for k, x in enumerate(xmls):
            p = _tar(x, workdir / f'a{k}.{kind}', tarmode)
            inputs.append(p)
            calls.append(lambda p=p: wn.add(p, progress_handler=None))
        return calls, inputs
    if payload == 'package':
        for k, x in enumerate(xmls):
            p = _make_package(x, workdir / f'pkg{k}', k)
            if tarmode:
                p = _tar(p, workdir / f'pkg{k}.{kind}', tarmode)
            inputs.append(p)
            calls.append(lambda p=p: wn.add(p, progress_handler=None))
        return calls, inputs
    if payload == 'collection':
        col = workdir / 'collection'
        col.mkdir()
        (col / 'README.md').write_text('collection readme\n')
        for k, x in enumerate(xmls):
            _make_package(x, col / f'pkg{k}', k)
        p = col
        if tarmode:
            p = _tar(col, workdir / f'collection.{kind}', tarmode)
        inputs.append(p)
        calls.append(lambda p=p: wn.add(p, progress_handler=None))
        return calls, inputs
    raise env.HarnessError(f'unknown route {route}')


class _Mutated(Exception):
    pass


def _state(db):
    return {'logical': dumps.logical_dump(db.file),
            'api': observe.observe_all_lexicons(deep=True, expand=''),
            'installed': sorted(dumps.installed(db.file))}


def _run_route(route, xmls, workdir, out, label):
    """Rounds of adds until the installed set is stable; returns states."""
    import wn
    db = env.fresh_db()
    wn.lexicons()  # initialise the database file
    calls, inputs = _supplies(route, xmls, workdir)
    sha0 = {str(p): _sha_tree(Path(p)) for p in inputs}
    states = []
    prev = None
    for rnd in range(4):
        raw_before = dumps.raw_dump(db.file)
        for c in calls:
            try:
                c()
            except _Mutated as m:
                out.append(Disc('in-memory-resource-modified', label, 'unchanged', str(m)))
        stt = _state(db)
        states.append(stt)
        if prev is not None and stt['installed'] == prev:
            # nothing new was installed in this round: then nothing at all may have changed
            for p, e, g in diff(raw_before, dumps.raw_dump(db.file))[:5]:
                out.append(Disc('re-add-changes-database', f'{label} round {rnd + 1}{p}', e, g))
            break
        prev = stt['installed']
    # one more add of what is installed must change nothing at all
    raw1 = dumps.raw_dump(db.file)
    for c in calls:
        try:
            c()
        except _Mutated as m:
            out.append(Disc('in-memory-resource-modified', label, 'unchanged', str(m)))
    raw2 = dumps.raw_dump(db.file)
    for p, e, g in diff(raw1, raw2)[:5]:
        out.append(Disc('re-add-changes-database', f'{label}{p}', e, g))
    problems = dumps.audit(db.file)
    if problems:
        out.append(Disc('audit', label, [], problems))
    sha1 = {str(p): _sha_tree(Path(p)) for p in inputs}
    if sha0 != sha1:
        out.append(Disc('input-modified', label, sha0, sha1))
    return states


def _check_installed(case, states, out, label):
    """After every round the installed lexicons are those the documented rules give: a lexicon
    whose id:version is installed is skipped, an extension whose base is not installed (before
    the call) is skipped, every other lexicon of the resource is added."""
    ref = RefDB()
    if not _ordered(case, label):
        # the packages of a collection are read in directory order, which the property leaves
        # open: with an extension whose base sits in another package only the fixed point is fixed
        for _ in range(len(case['resources']) + 1):
            for res in case['resources']:
                ref.add_resource(res)
        if sorted(ref.installed()) != states[-1]['installed']:
            out.append(Disc('installed-set-not-as-documented', f'{label} fixed point',
                            sorted(ref.installed()), states[-1]['installed']))
        return
    for rnd, stt in enumerate(states):
        for res in case['resources']:
            ref.add_resource(res)
        if sorted(ref.installed()) != stt['installed']:
            out.append(Disc('installed-set-not-as-documented', f'{label} round {rnd + 1}',
                            sorted(ref.installed()), stt['installed']))
            return


def _ordered(case, route) -> bool:
    """False if the outcome of a single round may depend on the order in which the route hands
    over the resources (a collection) because one resource extends a lexicon of another."""
    if 'collection' not in route:
        return True
    for res in case['resources']:
        own = {(lx['id'], lx['version']) for lx in res['lexicons']}
        for lx in res['lexicons']:
            x = lx.get('extends')
            if x and (x['id'], x['version']) not in own:
                return False
    return True


def oracle(case):
    import wn
    out: list[Disc] = []
    work = env.new_dir('c07')
    xmls = []
    for k, (res, style) in enumerate(zip(case['resources'], case['styles'])):
        # every other resource file has '..' inside its name (not a path component)
        xmls.append(xmlw.write(res, work / (f'r{k}..v.xml' if k % 2 == 0 else f'r{k}.xml'),
                               style))
    base_dir = work / 'base'
    base_dir.mkdir()
    route_dir = work / 'route'
    route_dir.mkdir()
    base_states = _run_route('xml', xmls, base_dir, out, 'baseline')
    if out:
        # the baseline itself misbehaved: report as is (kinds say so)
        return out
    _check_installed(case, base_states, out, 'xml')
    if out:
        return out
    if any(len(r['lexicons']) > 1 for r in case['resources']):
        # the same lexicons, one plain XML file each: what a lexicon contributes does not depend
        # on its neighbours in the file (which lexicons a round installs does - the skip rule -
        # so the fixed points are compared)
        split_dir = work / 'split'
        split_dir.mkdir()
        singles = []
        for k, (res, style) in enumerate(zip(case['resources'], case['styles'])):
            for j, lx in enumerate(res['lexicons']):
                one = {'lmf_version': res['lmf_version'], 'lexicons': [lx]}
                singles.append(xmlw.write(one, work / f's{k}-{j}.xml', style))
        split_states = _run_route('xml', singles, split_dir, out, 'one-lexicon-per-file')
        a, b = split_states[-1], base_states[-1]
        if a['installed'] != b['installed']:
            out.append(Disc('installed-set-differs', 'one-lexicon-per-file',
                            a['installed'], b['installed']))
        else:
            for p, e, g in diff(a['logical'], b['logical'])[:5]:
                out.append(Disc('tables-differ-from-one-lexicon-per-file', f'final{p}', e, g))
            for p, e, g in diff(a['api'], b['api'])[:5]:
                out.append(Disc('api-differs-from-one-lexicon-per-file', f'final{p}', e, g))
        if out:
            return out
    route = case['route']
    if route != 'xml':
        states = _run_route(route, xmls, route_dir, out, route)
        _check_installed(case, states, out, route)
        # round 1 and fixed point
        for name, a, b in (('round1', base_states[0], states[0]),
                           ('final', base_states[-1], states[-1])):
            if name == 'round1' and not _ordered(case, route):
                continue
            if a['installed'] != b['installed']:
                out.append(Disc('installed-set-differs', name, a['installed'], b['installed']))
                continue
            for p, e, g in diff(a['logical'], b['logical'])[:5]:
                out.append(Disc('tables-differ-from-plain-xml', f'{name}{p}', e, g))
            for p, e, g in diff(a['api'], b['api'])[:5]:
                out.append(Disc('api-differs-from-plain-xml', f'{name}{p}', e, g))
    # whatever the route, handing a loaded resource to add_lexical_resource must not modify it
    if route != 'memory':
        import wn.lmf
        env.fresh_db()
        wn.lexicons()
        for k, x in enumerate(xmls):
            res_ = wn.lmf.load(x, progress_handler=None)
            snap = copy.deepcopy(res_)
            wn.add_lexical_resource(res_, progress_handler=None)
            wn.add_lexical_resource(res_, progress_handler=None)
            if res_ != snap:
                out.append(Disc('in-memory-resource-modified', f'resource {k}', 'unchanged',
                                str(diff(snap, res_)[:3])))
    # an extension whose base is not installed is skipped as a whole
    if case.get('orphan_extension'):
        for k, res in enumerate(case['resources']):
            exts = [lx for lx in res['lexicons'] if lx.get('extends')]
            if not exts:
                continue
            orphan = {'lmf_version': res['lmf_version'], 'lexicons': [copy.deepcopy(exts[0])]}
            ox = xmlw.write(orphan, work / f'orphan{k}.xml', case['styles'][k])
            db = env.fresh_db()
            wn.lexicons()
            odir = work / f'orphan{k}'
            odir.mkdir()
            calls, _ = _supplies(route, [ox], odir)
            before = dumps.raw_dump(db.file)
            for c in calls:
                c()
            after = dumps.raw_dump(db.file)
            for p, e, g in diff(before, after)[:5]:
                out.append(Disc('orphan-extension-changes-database', p, e, g))
            break
    return out


def _fp(case):
    return fingerprint([case['resources'], case['route']])


def _strategy(tier):
    return _cases()


def _enumerate_routes(tier, shard, nshards):
    """Every route at least once per run, with fixed small documents drawn
    deterministically from the generator (stratification, not random)."""
    from hypothesis import given, settings, seed, HealthCheck, Phase
    import os
    vs = int(os.environ.get('VERIF_SEED', '1') or 1)
    cases = []
    for i, route in enumerate(ROUTES):
        if i % nshards != shard:
            continue

        @seed(vs * 1000 + i)
        @settings(max_examples=3 if tier == 'quick' else 20, database=None, deadline=None,
                  phases=[Phase.generate], suppress_health_check=list(HealthCheck))
        @given(_cases(route=route))
        def collect(case):
            cases.append(case)
        collect()
    return cases


def _sample(case):
    return {'route': case['route'], 'orphan_extension': case['orphan_extension'],
            'lexicons': [[(lx['id'] + ':' + lx['version'], 'ext' if lx.get('extends') else 'lex',
                           len(lx.get('entries', [])), len(lx.get('synsets', [])))
                          for lx in r['lexicons']] for r in case['resources']],
            'lmf_versions': [r['lmf_version'] for r in case['resources']],
            'style0': case['styles'][0]}


@st.composite
def _reuse_cases(draw):
    c = draw(_cases(route='package'))
    while len(c['resources']) < 2:
        extra = draw(_cases(route='package'))
        k = len(c['resources'])
        res = _rename_lexicons(extra['resources'][0],
                               {lx['id']: f'q{k}{lx["id"]}' for lx in extra['resources'][0]['lexicons']})
        c['resources'].append(res)
        c['styles'].append(extra['styles'][0])
    c['route'] = draw(st.sampled_from(['package-reused', 'collection-member-reused']))
    c['orphan_extension'] = False
    return c


def reuse_oracle(case):
    """A release directory updated in place: the same package (or collection) path is supplied
    again after its resource file was replaced by another one."""
    import wn
    out: list[Disc] = []
    work = env.new_dir('c07r')
    xmls = [xmlw.write(res, work / f'r{k}.xml', st_)
            for k, (res, st_) in enumerate(zip(case['resources'], case['styles']))]
    base_dir = work / 'base'
    base_dir.mkdir()
    base_states = _run_route('xml', xmls, base_dir, out, 'baseline')
    if out:
        return out
    db = env.fresh_db()
    wn.lexicons()
    if case['route'] == 'package-reused':
        target = pkg = work / 'release'
    else:
        target = work / 'collection'
        target.mkdir()
        pkg = target / 'pkg'
    for k, x in enumerate(xmls):
        if pkg.exists():
            shutil.rmtree(pkg)
        _make_package(x, pkg, k)          # resource file name differs each time
        wn.add(target, progress_handler=None)
    got = _state(db)
    exp = base_states[0]
    if got['installed'] != exp['installed']:
        out.append(Disc('installed-set-differs', 'package directory updated in place',
                        exp['installed'], got['installed']))
        return out
    for p, e, g in diff(exp['logical'], got['logical'])[:5]:
        out.append(Disc('tables-differ-from-plain-xml', f'reused{p}', e, g))
    for p, e, g in diff(exp['api'], got['api'])[:5]:
        out.append(Disc('api-differs-from-plain-xml', f'reused{p}', e, g))
    return out


SUBS = [
    Sub('package-dir-reused', reuse_oracle, _classify, strategy=lambda tier: _reuse_cases(),
        budget={'quick': 6, 'thorough': 60}, fingerprint=_fp, sample=_sample),
    Sub('routes-stratified', oracle, _classify, enumerate=_enumerate_routes,
        exhaustive_note='every one of the 15 supply routes with generated documents',
        fingerprint=_fp, sample=_sample,
        require_tags=tuple('route:' + r for r in ROUTES)),
    Sub('routes-random', oracle, _classify, strategy=_strategy,
        budget={'quick': 30, 'thorough': 400}, fingerprint=_fp, sample=_sample,
        require_tags=('extension-then-plain-lexicon-in-one-file', 'two-versions-of-one-id')),
    # LMF 1.0 only (frames sit on entries and share lists with the caller's resource if the
    # reader is careless), more entries, supplied in memory or as a plain file
    Sub('frames-1.0', oracle, _classify,
        strategy=lambda tier: st.sampled_from(['memory', 'xml']).flatmap(
            lambda r: _cases(route=r, versions=('1.0',), max_entries=5)),
        budget={'quick': 12, 'thorough': 200}, fingerprint=_fp, sample=_sample),
]
