"""C05 - Database content depends only on which lexicons are installed."""

from __future__ import annotations

import copy
import fnmatch
import json
import sqlite3

from hypothesis import strategies as st

from .. import dumps, env, gen, observe, xmlw
from ..canon import diff, fingerprint
from ..harness import Disc, Sub
from ..refdb import RefDB
from .c06 import corrupt, corruptions

PROPERTY = 'C05'
LEVEL = 'exploration'
RULE = ('Model-based histories: Hypothesis draws a universe of related lexicons (a base in two '
        'versions, an extension, an extension of the extension, a lexicon requiring the base and a '
        'never-installed one, an unrelated lexicon sharing ids and ILIs), groups them into files '
        '(some holding several lexicons) and draws a sequence of 3-14 operations: add(file), '
        'add(in-memory resource), add(ILI index), remove(specifier: exact, bare id, id:*, *:version, '
        '*, glob, two-element list), a failing add (one dangling reference) and reopen (drop pooled '
        'connections); every history has 1-4 removals each followed by further steps. After every step: the '
        'installed set equals the model\'s (documented add/skip/remove semantics); the audit '
        '(foreign_key_check, integrity_check, ownership of every row, dependency links in step '
        'with what is installed) is clean; requires()/extends()/extensions() agree with the '
        'model; and the logical table dump and per-lexicon API observation equal those of a fresh '
        'database built by adding only the currently installed lexicons. Non-trivial: the '
        'history removes a lexicon that had an extension or a dependant and continues afterwards; '
        'distinct by operation sequence.')
ASSUMPTIONS = [
    'specifier resolution follows docs/guides/lexicons.rst (verified separately by C08)',
    'the shared ILI inventory (status/definition of ILIs) and cross-lexicon row order are not '
    'compared, as the statement says',
]

SPECS = ['a:1', 'a:1', 'a', 'x:1', 'a:1', 'a:2', 'b:1', 'x:1', 'y:1', 'r:1', 'a', 'b', 'x', 'a:*', '*:1', '*:2', '*',
         '?:1', 'a*', '[xy]:1', 'a:1 b:1', 'x:1 a:2', 'zz:9', 'y r']


@st.composite
def _cases(draw):
    u = draw(gen.universes(attachments=True, relations=True, max_entries=2, max_synsets=2,
                           ext_new_forms=True, max_forms=1))
    docs = u['lexicons']
    n = len(docs)
    # files: every lexicon alone, plus one file with all of them in order
    files = [[i] for i in range(n)] + [list(range(n))]
    if n >= 2:
        files.append([0, 1])
    ops = []
    if draw(st.booleans()):
        # install everything first (the second add installs the extensions of the all-in-one file)
        ops += [{'op': 'add', 'file': n}, {'op': 'add', 'file': n}, {'op': 'add', 'file': n}]
    def other():
        kind = draw(st.sampled_from(['add', 'add', 'add', 'add_mem', 'add_ili', 'reopen',
                                     'add_bad']))
        if kind in ('add', 'add_mem'):
            return {'op': kind, 'file': draw(st.integers(0, len(files) - 1))}
        if kind == 'add_bad':
            return {'op': kind, 'file': draw(st.integers(0, len(files) - 1)),
                    'pos': draw(st.integers(0, 50)), 'mem': draw(st.booleans())}
        return {'op': kind}

    specs_ = [gen.spec_of(d) for d in docs]
    if 'x:1' in specs_ and draw(st.integers(0, 2)) == 0:
        # an extension comes and goes and another lexicon takes its place (row ids are reused):
        # nothing remembered about the old extension may stick to the newcomer
        ix = specs_.index('x:1')
        plain = [i for i, d in enumerate(docs) if i and not d.get('extends')]
        ops += [{'op': 'add', 'file': 0}, {'op': 'add', 'file': ix},
                {'op': 'remove', 'spec': 'x:1'}]
        if plain:
            ops.append({'op': draw(st.sampled_from(['add', 'add_mem'])),
                        'file': draw(st.sampled_from(plain))})
    for _ in range(draw(st.integers(0, 3))):
        ops.append(other())
    # segments: a removal followed by further steps, so that what a removal leaves
    # behind is inspected and built upon
    for _ in range(draw(st.integers(1, 4))):
        ops.append({'op': 'remove', 'spec': draw(st.sampled_from(SPECS))})
        for _ in range(draw(st.integers(1, 3))):
            ops.append(other())
    return {'universe': u, 'files': files, 'ops': ops, 'style': draw(xmlw.styles())}


def resolve(spec: str, installed: list[str]) -> list[str]:
    """Documented specifier semantics over the installed list (in add order)."""
    out = []
    for tok in spec.split():
        bare = not any(c in tok for c in ':*?[')
        pat = tok if ':' in tok else tok + ':*'
        m = [s for s in installed if fnmatch.fnmatchcase(s, pat)]
        if bare:
            m = m[-1:]
        for s in m:
            if s not in out:
                out.append(s)
    return out


def _classify(case):
    docs = case['universe']['lexicons']
    deps = gen.universe_deps(docs)
    ref = RefDB()
    tags = set()
    removed_structural_at = None
    for i, op in enumerate(case['ops']):
        tags.add('op:' + op['op'])
        if op['op'] == 'add_bad':
            continue
        if op['op'] in ('add', 'add_mem'):
            res = {'lmf_version': case['universe']['lmf_version'],
                   'lexicons': [docs[j] for j in case['files'][op['file']]]}
            before = set(ref.installed())
            added = ref.add_resource(res)
            if added and any(a in tags for a in [f'was-removed:{x}' for x in added]):
                tags.add('re-add')
            if len(case['files'][op['file']]) > 1:
                tags.add('multi-lexicon-file')
        elif op['op'] == 'remove':
            sel = resolve(op['spec'], ref.installed())
            if '*' in op['spec']:
                tags.add('star-removal')
            for s in sel:
                L = ref.get(s)
                if L is None:
                    continue
                if ref.extensions_of(L):
                    tags.add('removed-lexicon-with-extension')
                    removed_structural_at = i
                    if any(ref.extensions_of(x) for x in ref.extensions_of(L, 1)):
                        tags.add('second-level-extension-removed')
                if any(p is L for X in ref.lexs for p in ref.requires_installed(X)):
                    tags.add('dependency-provider-removed')
                    removed_structural_at = i
            gone = ref.remove(sel)
            for g in gone:
                tags.add(f'was-removed:{g}')
    nt = removed_structural_at is not None and removed_structural_at < len(case['ops']) - 1
    tags = {t for t in tags if not t.startswith('was-removed:')}
    if 'extension-new-form' in gen.resource_tags({'lmf_version': '1.1', 'lexicons': docs}):
        tags.add('extension-adds-form-to-base-entry')
    return nt, sorted(tags)


def _k(x):
    return json.dumps(x, sort_keys=True, default=str)


def _mask(o):
    """Observation without the shared ILI inventory; unordered children as multisets."""
    if isinstance(o, dict):
        out = {}
        for k, v in o.items():
            if k == 'ili' and isinstance(v, dict) and v.get('status') != 'proposed':
                out[k] = {'id': v.get('id')}
            elif k == 'ilis' and isinstance(v, list):
                out[k] = sorted(({'id': x['id']} if x.get('status') != 'proposed' else x
                                 for x in v), key=_k)
            elif k in ('tags', 'pronunciations', 'examples', 'counts') and isinstance(v, list):
                out[k] = {'__multiset__': v}
            else:
                out[k] = _mask(v)
        return out
    if isinstance(o, list):
        return [_mask(v) for v in o]
    return o


def _unwrap(o):
    if isinstance(o, dict):
        if set(o) == {'__multiset__'}:
            return [_unwrap(v) for v in o['__multiset__']]
        return {k: _unwrap(v) for k, v in o.items()}
    if isinstance(o, list):
        return [_unwrap(v) for v in o]
    return o


_DOCS: list = []


def _state(db):
    log = dumps.logical_dump(db.file)
    log.pop('__counts__', None)
    default = observe.observe_selection(None, expand=None)
    default.pop('warnings', None)
    default.pop('ilis', None)     # unfiltered listing of the shared ILI inventory
    if '__raises__' not in default:
        # look-ups by form, id and ILI and translations (anything remembered from before a
        # removal or an add would show here)
        import wn
        from .c04 import extra_queries
        w = wn.Wordnet()
        q = extra_queries(w, _DOCS, sorted(observe.lexspec(lx) for lx in w.lexicons()))
        default['queries'] = {k: v for k, v in q.items()
                              if not k.startswith('ili(') and not k.startswith('ilis(')}
    return {'logical': {t: {'__multiset__': rows} for t, rows in log.items()},
            'api': _mask(observe.observe_all_lexicons(deep=True, expand='')),
            'api_default': _mask(default)}


def oracle(case):
    import wn
    u = case['universe']
    docs = u['lexicons']
    _DOCS[:] = docs
    work = env.new_dir('c05')
    paths = []
    for i, idxs in enumerate(case['files']):
        res = {'lmf_version': u['lmf_version'], 'lexicons': [docs[j] for j in idxs]}
        paths.append((xmlw.write(res, work / f'f{i}.xml', case['style'] if i % 2 else None), res))
    ili = work / 'ili.tsv'
    ili.write_text('ili\tstatus\tdefinition\ni1\tactive\tfirst\ni2\tdeprecated\t\ni9\tactive\tunused\n')
    db = env.fresh_db()
    wn.lexicons()
    ref = RefDB()
    out: list[Disc] = []
    fresh_cache: dict = {}
    for step, op in enumerate(case['ops']):
        label = f'step{step}:{op["op"]}'
        if op['op'] == 'add':
            p, res = paths[op['file']]
            wn.add(p, progress_handler=None)
            ref.add_resource(res)
        elif op['op'] == 'add_mem':
            p, res = paths[op['file']]
            wn.add_lexical_resource(copy.deepcopy(res), progress_handler=None)
            ref.add_resource(res)
        elif op['op'] == 'add_bad':
            # an add that is made to fail by one dangling reference: nothing may change, and
            # nothing may be left behind that disturbs the following steps
            p, res = paths[op['file']]
            cands = [c for c in corruptions(res) if c[0] in ('sense-synset',
                                                              'synset-relation-target',
                                                              'sense-relation-target')]
            if cands:
                kind, pos = cands[op['pos'] % len(cands)]
                bad = corrupt(res, kind, pos)
                try:
                    if op.get('mem'):
                        wn.add_lexical_resource(bad, progress_handler=None)
                    else:
                        wn.add(xmlw.write(bad, work / f'bad{step}.xml', None),
                               progress_handler=None)
                except (wn.Error, sqlite3.Error):
                    pass
                else:
                    # not rejected: the corrupted lexicon must have been one that is skipped
                    ref.add_resource(res)
        elif op['op'] == 'add_ili':
            wn.add(ili, progress_handler=None)
        elif op['op'] == 'reopen':
            db.reopen()
        elif op['op'] == 'remove':
            sel = resolve(op['spec'], ref.installed())
            try:
                wn.remove(op['spec'], progress_handler=None)
            except wn.Error:
                if sel:
                    out.append(Disc('remove-raises', label, sel, 'wn.Error'))
                    return out
            ref.remove(sel)
        # 1. installed set
        db.use()
        inst = dumps.installed(db.file)
        if sorted(inst) != sorted(ref.installed()):
            out.append(Disc('installed-set', label, sorted(ref.installed()), sorted(inst)))
            return out
        # 2. audit
        problems = dumps.audit(db.file)
        if problems:
            out.append(Disc('audit', label, [], problems))
            return out
        # 3. dependency links through the API
        view = ref.view(None)
        listed = sorted(observe.lexspec(lx) for lx in wn.lexicons())
        if listed != sorted(ref.installed()):
            # the tables are right (step 1) but the API lists something else
            out.append(Disc('installed-set:api', label, sorted(ref.installed()), listed))
            return out
        for lx in wn.lexicons():
            got = observe.lexicon_obs(lx)
            exp = view.lexicon_obs(ref.get(observe.lexspec(lx)))
            for k in ('requires', 'extends', 'extensions', 'extensions_all'):
                if got[k] != exp[k]:
                    out.append(Disc('dependency-links', f'{label}/{observe.lexspec(lx)}/{k}',
                                    exp[k], got[k]))
        if out:
            return out
        # 4. fresh-database differential
        key = tuple(ref.installed())
        if key not in fresh_cache:
            fdb = env.Db()
            fdb.use()
            wn.lexicons()
            for L in ref.lexs:
                wn.add_lexical_resource({'lmf_version': u['lmf_version'],
                                         'lexicons': [copy.deepcopy(L.doc)]},
                                        progress_handler=None)
            fresh_cache[key] = _state(fdb)
            db.use()
        exp = fresh_cache[key]
        got = _state(db)
        for p, e, g in diff(exp['logical'], _unwrap(got['logical']), limit=6):
            out.append(Disc('fresh-differential:tables', f'{label}{p}', e, g))
        for p, e, g in diff(exp['api'], _unwrap(got['api']), limit=6):
            out.append(Disc('fresh-differential:api', f'{label}{p}', e, g))
        for p, e, g in diff(exp['api_default'], _unwrap(got['api_default']), limit=6):
            out.append(Disc('fresh-differential:api', f'{label}/default-mode{p}', e, g))
        if out:
            return out
    return out


def _sample(case):
    return {'lexicons': [gen.spec_of(d) + (' ext of ' + d['extends']['id'] if d.get('extends')
                                           else '') for d in case['universe']['lexicons']],
            'files': case['files'], 'ops': case['ops']}


SUBS = [
    Sub('histories', oracle, _classify, strategy=lambda tier: _cases(),
        budget={'quick': 80, 'thorough': 400}, sample=_sample,
        fingerprint=lambda c: fingerprint([c['universe'], c['files'], c['ops']]),
        require_tags=('removed-lexicon-with-extension', 'star-removal', 're-add', 'op:reopen',
                      'op:add_ili', 'op:add_mem', 'op:add_bad',
                      'extension-adds-form-to-base-entry')),
]
