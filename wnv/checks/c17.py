"""C17 - Morphy returns only valid lemmas when initialised and all candidates otherwise;
a Wordnet using it finds the union of what each proposed (pos, form) pair finds."""

from __future__ import annotations

import os

from hypothesis import strategies as st

from .. import env
from ..harness import Disc, Sub
from ..morphyref import (HANDLED, REPLACEMENTS, RULE_IDS, RULES, SUFFIXES, Model, considered,
                         inflect, outputs, rule_id, whole_word)

PROPERTY = 'C17'
LEVEL = 'exploration'
RULE = ('Hypothesis draws 2-5 stems and builds one lexicon (optionally a second, unselected '
        'distractor lexicon) whose lemmas are stem + rule replacement for a drawn subset of the 24 '
        'detachment rules (stored under the rule\'s pos, a wrong pos, or both; a/s drawn for the '
        'adjective rules), plus stem + any suffix/replacement, bare suffixes and replacements as '
        'lemmas, occasional capitalised lemmas, 0-2 further forms per entry from a small shared '
        'pool (irregulars, inflected stems, other lemmas), 0-2 senses per entry into per-pos '
        'synsets (sometimes of another pos).  Query strings: every rule run backwards on its '
        'planted lemma, every stored lemma and form, all 16 bare suffixes and 10 replacements, '
        'unrelated strings, and a drawn subset of {every rule run backwards on every stored '
        'string, every stored string + every suffix, stored string minus last letter}; each '
        'string is asked with pos in {None,n,v,a,s,r,x} of Morphy(wordnet), Morphy() and '
        'wn.morphy.morphy, and (pos None plus, alternating by query index, n/a/r or v/s/x) of '
        'Wordnet.words/senses/synsets with either lemmatizer, with a drawn normalizer in '
        '{default,None} and search_all_forms in {True,False}; one database per case.  One '
        'enumerated case per shard plants all 24 rules under the right pos.  Non-trivial: some '
        'query makes a rule yield a stored lemma of its pos or hits the exception map; distinct '
        'by (lexicon, queries, configuration).  Tags hit:<rule> count cases in which the rule '
        'produced a stored lemma; all 24 are required in every run.')
ASSUMPTIONS = [
    'written forms and queries are non-empty ASCII letters (default normalisation = downcasing)',
    'an initialised Morphy may return, under any key p, any lemma of a word of pos p (validity '
    'predicate sources(p) <= result[p] <= lemmas(p)); completeness is demanded only for the pos '
    'asked for (all of n,v,a,s,r when pos is None) and not for a pos Morphy does not handle',
    'uninitialised: the original form must appear under the requested pos key or None; a rule '
    'output must appear under its pos key or None; anything else is a discrepancy',
    'when the lemmatizer proposes nothing the Wordnet may either find nothing or fall back to the '
    'original (form, pos) - the property text only covers proposed pairs',
    'the normalised back-off after an empty first pass may be decided per proposed pair or for '
    'all pairs together (the guide does not say); both results are accepted',
    'one selected lexicon per case, no extensions; synset pos filter as documented for '
    'Wordnet.synsets (the synset\'s own pos)',
]

POSS = [None, 'n', 'v', 'a', 's', 'r', 'x']
POS_LEX = ['n', 'v', 'a', 's', 'r', 'x', 'u']
STEMS = ['ax', 'a', 'wol', 'kn', 'l', 'bak', 'tr', 'big', 'wi', 'bo', 'cla', 'bu', 'fi', 'chur',
         'di', 'wo', 'fl', 'qui', 'e', 'go', 'ru', 'bus', 'lik', 'fre', 'pon', 'fish']
IRREG = ['geese', 'mice', 'went', 'oxen', 'better', 'lemmata']
TAILS = sorted(set(SUFFIXES) | set(REPLACEMENTS) | {''})
NQ = {'quick': 50, 'thorough': 120}
MAX_DISCS = 25


# ---------------------------------------------------------------------------
# generator

def _lexicon(lex_id, entries, synsets):
    lex = {'id': lex_id, 'version': '1', 'label': lex_id, 'language': 'en',
           'email': 'e@x', 'license': 'l', 'meta': None}
    les = []
    for i, e in enumerate(entries):
        le = {'id': f'{lex_id}-e{i}',
              'lemma': {'writtenForm': e['lemma'], 'partOfSpeech': e['pos']}, 'meta': None}
        if e['forms']:
            # the same irregular form may be stored with different scripts by different
            # entries: it is still one string for Morphy
            le['forms'] = [dict({'writtenForm': f},
                                **({'script': ('Latn', 'Zyyy')[i % 2]} if i % 3 else {}))
                           for f in e['forms']]
        if e['senses']:
            le['senses'] = [{'id': f'{lex_id}-e{i}-s{k}', 'synset': ss, 'meta': None}
                            for k, ss in enumerate(e['senses'])]
        les.append(le)
    lex['entries'] = les
    if synsets:
        lex['synsets'] = [{'id': ssid, 'ili': '', 'partOfSpeech': p, 'meta': None}
                          for ssid, p in sorted(synsets.items())]
    return lex


@st.composite
def _cases(draw, tier='quick', force_all=False):
    stems = draw(st.lists(st.sampled_from(STEMS), min_size=2, max_size=5, unique=True))
    stem = st.sampled_from(stems)
    entries: list = []
    planted: list = []          # (rule, index of the entry stored under the right pos or None)

    def add(lemma, pos):
        entries.append({'lemma': lemma, 'pos': pos, 'forms': [], 'senses': []})
        return len(entries) - 1

    for rule in RULES:
        if not force_all and draw(st.integers(0, 6)) == 0:
            continue
        lemma = draw(stem) + rule[2]
        right = rule[0] if rule[0] != 'a' else draw(st.sampled_from(['a', 's']))
        mode = 'right' if force_all else draw(st.sampled_from(['right'] * 5 + ['wrong', 'both']))
        idx = None
        if mode in ('right', 'both'):
            idx = add(lemma, right)
        if mode in ('wrong', 'both'):
            j = add(lemma, draw(st.sampled_from([p for p in POS_LEX if p != right])))
            idx = j if idx is None else idx
        planted.append((rule, idx))
    n_planted = len(entries)
    for _ in range(draw(st.integers(0, 10))):
        tail = draw(st.sampled_from(TAILS))
        bare = tail and draw(st.integers(0, 3)) == 0
        add(tail if bare else draw(stem) + tail, draw(st.sampled_from(POS_LEX)))
    if not entries:
        add(draw(stem), 'n')
    # occasional capitalised lemma (normalised-column matches; Morphy is case-exact)
    for i, e in enumerate(entries):
        if not (force_all and i < n_planted) and draw(st.integers(0, 11)) == 0:
            e['lemma'] = e['lemma'].capitalize()
    # further forms from a small shared pool
    lemma_pool = sorted({e['lemma'] for e in entries})
    form = st.one_of(st.sampled_from(IRREG),
                     st.builds(lambda a, b: a + b, stem, st.sampled_from(SUFFIXES)),
                     st.sampled_from(lemma_pool))
    for e in entries:
        for _ in range(draw(st.sampled_from([0, 0, 0, 1, 1, 2]))):
            f = draw(form)
            if f != e['lemma'] and f not in e['forms']:
                e['forms'].append(f)
    # senses into per-pos synsets
    synsets: dict = {}
    for e in entries:
        for _ in range(draw(st.sampled_from([0, 1, 1, 1, 2]))):
            spos = e['pos'] if draw(st.integers(0, 9)) else draw(st.sampled_from(POS_LEX))
            ssid = f'm-ss-{spos}{draw(st.integers(0, 2))}'
            if ssid not in e['senses']:
                synsets[ssid] = spos
                e['senses'].append(ssid)
    lexicons = [_lexicon('m', entries, synsets)]
    # unselected lexicon holding lemmas that would turn rule outputs into "lemmas"
    if draw(st.integers(0, 2)) == 0:
        dents, dsyn = [], {}
        for _ in range(draw(st.integers(2, 6))):
            rule = draw(st.sampled_from(RULES))
            pos = rule[0] if rule[0] != 'a' else draw(st.sampled_from(['a', 's']))
            dsyn[f'd-ss-{pos}'] = pos
            dents.append({'lemma': draw(stem) + rule[2], 'pos': pos,
                          'forms': [draw(form)] if draw(st.booleans()) else [],
                          'senses': [f'd-ss-{pos}']})
        lexicons.append(_lexicon('d', dents, dsyn))

    # query strings
    mand: list = []
    for rule, idx in planted:
        q = inflect(entries[idx]['lemma'], rule)
        mand += [q, q.lower()]
    stored = sorted({e['lemma'] for e in entries} | {f for e in entries for f in e['forms']})
    mand += stored + SUFFIXES + REPLACEMENTS + ['zzz', 'q']
    seen = set()
    mand = [q for q in mand if q and not (q in seen or seen.add(q))]
    cands = set()
    for w in stored:
        for rule in RULES:
            q = inflect(w, rule)
            if q:
                cands.add(q)
        for suf in SUFFIXES:
            cands.add(w + suf)
        if len(w) > 1:
            cands.add(w[:-1])
    cands = sorted(cands - seen)
    k = min(NQ[tier], len(cands))
    more = draw(st.lists(st.sampled_from(cands), min_size=k, max_size=k, unique=True)) if k else []
    return {
        'resource': {'lmf_version': '1.1', 'lexicons': lexicons},
        'queries': mand + more,
        'normalizer': draw(st.sampled_from(['default', 'default', 'none'])),
        'all_forms': draw(st.sampled_from([True, True, False])),
    }


def _strategy(tier):
    return _cases(tier=tier)


def _enumerate_all_rules(tier, shard, nshards):
    """Per shard, generated lexicons in which every one of the 24 rules is planted
    under its own pos (so every rule yields a stored lemma in every run)."""
    from hypothesis import HealthCheck, Phase, given, seed, settings
    vs = int(os.environ.get('VERIF_SEED', '1') or 1)
    cases: list = []

    @seed(vs * 1000 + shard)
    @settings(max_examples=3 if tier == 'quick' else 5, database=None, deadline=None,
              phases=[Phase.generate], suppress_health_check=list(HealthCheck))
    @given(_cases(tier=tier, force_all=True))
    def collect(case):
        cases.append(case)
    collect()
    # Hypothesis starts with its simplest example (the same in every shard): keep it in shard 0
    return cases if shard == 0 else cases[1:]


# ---------------------------------------------------------------------------
# classification (generator health)

def _classify(case):
    model = Model(case['resource']['lexicons'][0])
    tags = set()
    nontrivial = False
    for q in case['queries']:
        exc_pos = 0
        for p in HANDLED:
            outs = outputs(q, p)
            lem = model.lemmas.get(p, set())
            hits = set()
            for rule, o in outs:
                tags.add('fire:' + rule_id(rule))
                if o in lem:
                    hits.add(o)
                    tags.add('hit:' + rule_id(rule))
                    if p == 's':
                        tags.add('hit-under-s')
                elif any(o in ls for ls in model.lemmas.values()):
                    tags.add('near-miss:output-is-lemma-of-other-pos')
            for rule in whole_word(q, p):
                tags.add('whole-word:' + rule_id(rule))
            ex = model.exc.get(p, {}).get(q, ())
            if ex:
                exc_pos += 1
                tags.add('exc-hit')
                if len(ex) > 1:
                    tags.add('exc-several-lemmas')
                if q in lem:
                    tags.add('exc-form-is-also-lemma')
                if hits:
                    tags.add('exc+rule-same-query')
            if hits or ex:
                nontrivial = True
            if len(hits | set(ex) | ({q} & lem)) >= 3:
                tags.add('three-or-more-lemmas')
        if exc_pos > 1:
            tags.add('exc-shared-between-pos')
    lem_a, lem_s = model.lemmas.get('a', set()), model.lemmas.get('s', set())
    if lem_a & lem_s:
        tags.add('lemma-under-a-and-s')
    if any(l in SUFFIXES for ls in model.lemmas.values() for l in ls):
        tags.add('lemma-is-bare-suffix')
    if any(l != l.lower() for ls in model.lemmas.values() for l in ls):
        tags.add('capitalised-lemma')
    if any(p not in HANDLED for p in model.lemmas):
        tags.add('other-pos-entries')
    if any(model.synset_pos[ss] != pos for _i, pos, _l, _o, senses in model.entries
           for _s, ss in senses):
        tags.add('sense-in-synset-of-other-pos')
    if len(case['resource']['lexicons']) > 1:
        tags.add('distractor-lexicon')
    tags.add('normalizer:' + case['normalizer'])
    tags.add('search_all_forms:' + str(case['all_forms']))
    return nontrivial, sorted(tags)


# ---------------------------------------------------------------------------
# oracle

def _where(mode, q, pos):
    return f'{mode}[q={q!r},pos={pos}]'


def _as_sets(res):
    """Lemmatizer result as {key: set}; None if it is not a mapping of collections."""
    if not isinstance(res, dict):
        return None
    out = {}
    for k, v in res.items():
        if isinstance(v, str) or not (k is None or isinstance(k, str)):
            return None
        try:
            out[k] = set(v)
        except TypeError:
            return None
    return out


def _check_init(model, q, pos, res, out):
    where = _where('initialized', q, pos)
    for k in sorted(res, key=repr):
        vs = res[k]
        if not vs:
            out.append(Disc('init-empty-set-key', where, 'no key for an empty set', {repr(k): []}))
            continue
        extra = vs - model.lemmas.get(k, set())
        if extra:
            out.append(Disc('init-not-a-lemma', where,
                            f'only lemmas of words of pos {k!r}', sorted(extra),
                            note=f'key {k!r}; lemmas({k!r}) & candidates = '
                                 f'{sorted(vs - extra)}'))
    # "for each part of speech": an initialised Morphy knows the lemmas and the further forms
    # of every part of speech, also of those that have no detachment rules
    every = sorted(model.lemmas) if pos is None else ([pos] if pos in model.lemmas else [])
    for p in sorted(set(considered(pos)) | set(every)):
        got = res.get(p, set())
        for reason, must in sorted(model.sources(q, p).items()):
            missing = must - got
            if missing:
                out.append(Disc(f'init-missing-{reason}', where, sorted(must), sorted(got),
                                note=f'key {p!r}: missing {sorted(missing)}'))


def _check_uninit(q, pos, res, out, mode='uninitialized'):
    where = _where(mode, q, pos)
    cons = considered(pos)
    if q not in res.get(pos, set()) and q not in res.get(None, set()):
        out.append(Disc('uninit-original-missing', where, f'{q!r} under key {pos!r}',
                        {repr(k): sorted(v) for k, v in res.items()}))
    any_out = {o for p in cons for _r, o in outputs(q, p)}
    for k in sorted(res, key=repr):
        if k is not None and k != pos and k not in cons:
            out.append(Disc('uninit-unexpected-key', where, f'keys within {[pos, *cons]}',
                            {repr(k): sorted(res[k])}))
            continue
        legit = any_out if k is None else {o for _r, o in outputs(q, k)}
        for f in sorted(res[k]):
            if f == q or f in legit:
                continue
            full = [r for p in (cons if k is None else (k,)) for r in whole_word(q, p)
                    if f == r[2]]
            if full:
                out.append(Disc('uninit-whole-word-detached', where,
                                'no rule whose suffix is the whole word', f,
                                note=f'key {k!r}, rule {rule_id(full[0])}'))
            else:
                out.append(Disc('uninit-extra-form', where,
                                sorted(legit | {q}), f, note=f'key {k!r}'))
    for p in cons:
        got = res.get(p, set()) | res.get(None, set())
        for rule, o in outputs(q, p):
            if o not in got:
                out.append(Disc('uninit-missing-rule-output', where, o, sorted(got),
                                note=f'key {p!r}, rule {rule_id(rule)}'))


def _check_wordnet(model, w, mode, q, pos, proposals, all_forms, norm, out):
    where = _where(mode, q, pos)
    for kind in ('words', 'senses', 'synsets'):
        got = [x.id for x in getattr(w, kind)(q, pos=pos)]
        if len(got) != len(set(got)):
            out.append(Disc(f'wn-{kind}-duplicates', where, 'no duplicates', got))
        if proposals:
            ok = model.search(kind, proposals, all_forms, norm)
        else:
            ok = [set()]
            for s in model.search(kind, {pos: {q}}, all_forms, norm):
                if s not in ok:
                    ok.append(s)
        if set(got) not in ok:
            exp = ok[0]
            out.append(Disc(f'wn-{kind}-not-union-of-proposals', where,
                            sorted(exp) if len(ok) == 1 else {'one of': [sorted(s) for s in ok]},
                            sorted(got),
                            note=f'proposals={ {repr(k): sorted(v) for k, v in proposals.items()} } '
                                 f'missing={sorted(exp - set(got))} extra={sorted(set(got) - exp)}'))


def oracle(case):
    import wn
    import wn.morphy
    from wn.morphy import Morphy
    out: list[Disc] = []
    env.fresh_db()
    wn.add_lexical_resource(case['resource'], progress_handler=None)
    model = Model(case['resource']['lexicons'][0])
    all_forms = case['all_forms']
    norm = case['normalizer'] == 'default'
    kw = {'search_all_forms': all_forms}
    if not norm:
        kw['normalizer'] = None
    w_init = wn.Wordnet(model.spec, **kw)
    m_init = Morphy(w_init)
    w_init.lemmatizer = m_init          # as documented for an initialised Morphy
    m_un = Morphy()
    w_un = wn.Wordnet(model.spec, lemmatizer=m_un, **kw)
    for i, q in enumerate(case['queries']):
        # Morphy itself is asked with all seven pos values; the (dearer) Wordnet queries with
        # None and, alternating by query index, (n, a, r) or (v, s, x)
        wn_pos = {None, *POSS[1 + i % 2::2]}
        for pos in POSS:
            if len(out) >= MAX_DISCS:
                return out
            ri = _as_sets(m_init(q, pos))
            if ri is None:
                out.append(Disc('bad-result-type', _where('initialized', q, pos),
                                'dict of pos -> set of str', repr(m_init(q, pos))[:200]))
            else:
                _check_init(model, q, pos, ri, out)
            if ri is not None and pos in wn_pos:
                _check_wordnet(model, w_init, 'wordnet+initialized', q, pos, ri,
                               all_forms, norm, out)
            ru = _as_sets(m_un(q, pos))
            if ru is None:
                out.append(Disc('bad-result-type', _where('uninitialized', q, pos),
                                'dict of pos -> set of str', repr(m_un(q, pos))[:200]))
            else:
                _check_uninit(q, pos, ru, out)
            if ru is not None and pos in wn_pos:
                _check_wordnet(model, w_un, 'wordnet+uninitialized', q, pos, ru,
                               all_forms, norm, out)
            rm = _as_sets(wn.morphy.morphy(q, pos))
            if rm is None:
                out.append(Disc('bad-result-type', _where('module-morphy', q, pos),
                                'dict of pos -> set of str', repr(wn.morphy.morphy(q, pos))[:200]))
            else:
                _check_uninit(q, pos, rm, out, mode='module-morphy')
    if not out:
        _check_twin(case, kw, out)
    return out


def _check_twin(case, kw, out):
    """Two versions of the lexicon (all ids shared) behind one Wordnet: every query finds the
    union of what it finds in each version alone, each entity once."""
    import copy
    import wn
    from wn.morphy import Morphy
    lex = case['resource']['lexicons'][0]
    twin = copy.deepcopy(lex)
    twin['version'] = lex['version'] + '.twin'
    wn.add_lexical_resource({'lmf_version': '1.1', 'lexicons': [twin]}, progress_handler=None)
    specs = [f"{lex['id']}:{lex['version']}", f"{twin['id']}:{twin['version']}"]

    def keys(w, kind, q, pos):
        return [(x.lexicon().specifier(), x.id) for x in getattr(w, kind)(q, pos=pos)]

    for init in (False, True):
        ws = []
        for sel in (specs[0], specs[1], ' '.join(specs)):
            w = wn.Wordnet(sel, **kw)
            w.lemmatizer = Morphy(w) if init else Morphy()
            ws.append(w)
        for i, q in enumerate(case['queries'][:12]):
            for pos in (None, POSS[1 + i % (len(POSS) - 1)]):
                for kind in ('words', 'senses', 'synsets'):
                    a, b, both = (keys(w, kind, q, pos) for w in ws)
                    if len(both) != len(set(both)):
                        out.append(Disc(f'wn-{kind}-duplicates',
                                        _where(f'two-versions init={init}', q, pos),
                                        'no duplicates', [list(k) for k in both]))
                    elif set(both) != set(a) | set(b):
                        out.append(Disc(f'wn-{kind}-not-union-of-lexicons',
                                        _where(f'two-versions init={init}', q, pos),
                                        sorted(map(list, set(a) | set(b))),
                                        sorted(map(list, both))))
                    if len(out) >= MAX_DISCS:
                        return


def _sample(case):
    lex = case['resource']['lexicons'][0]
    return {
        'entries': [f"{e['lemma']['writtenForm']}/{e['lemma']['partOfSpeech']}"
                    + ''.join('+' + f['writtenForm'] for f in e.get('forms', []))
                    for e in lex.get('entries', [])][:60],
        'lexicons': len(case['resource']['lexicons']),
        'n_queries': len(case['queries']) * len(POSS),
        'queries': case['queries'][:40],
        'normalizer': case['normalizer'], 'search_all_forms': case['all_forms'],
    }


_REQUIRED = tuple('hit:' + r for r in RULE_IDS) + tuple('fire:' + r for r in RULE_IDS) \
    + tuple('whole-word:' + r for r in RULE_IDS) + ('exc-hit',)

SUBS = [
    Sub('all-rules-planted', oracle, _classify, enumerate=_enumerate_all_rules,
        exhaustive_note='generated lexicons with all 24 rules planted under their own pos '
                        '(generator stratification, not an exhaustive family)',
        sample=_sample, require_tags=_REQUIRED),
    Sub('random-lexicons', oracle, _classify, strategy=_strategy,
        budget={'quick': 25, 'thorough': 60}, sample=_sample),
]
