"""Entry point: python -m wnv.run <ID> --tier quick|thorough [--replay F]

Exit codes: 0 held, 1 violation (VIOLATION line printed), 2 harness error.
"""

from __future__ import annotations

import argparse
import json
import os
import sys
import traceback
from pathlib import Path


def main(argv=None) -> int:
    ap = argparse.ArgumentParser()
    ap.add_argument('property')
    ap.add_argument('--tier', default=os.environ.get('VERIF_TIER', 'quick'),
                    choices=['quick', 'thorough'])
    ap.add_argument('--seed', type=int, default=None)
    ap.add_argument('--replay')
    ap.add_argument('--shard')
    ap.add_argument('--report')
    ap.add_argument('--only')
    ap.add_argument('--scale', type=float, default=1.0)
    args = ap.parse_args(argv)

    seed = args.seed
    if seed is None:
        try:
            seed = int(os.environ.get('VERIF_SEED', '1'))
        except ValueError:
            seed = 1
    seed = abs(seed)

    from . import env, harness
    try:
        env.import_wn()
        if args.replay:
            rep = json.loads(Path(args.replay).read_text())
            want = rep.get('pythonhashseed')
            if want is not None and os.environ.get('PYTHONHASHSEED') != str(want) \
                    and not os.environ.get('WNV_REEXEC'):
                e = dict(os.environ, PYTHONHASHSEED=str(want), WNV_REEXEC='1')
                os.execve(sys.executable, [sys.executable, '-m', 'wnv.run'] + sys.argv[1:], e)
            return harness.run_replay(args.property, args.replay)
        if args.shard:
            i, n = map(int, args.shard.split('/'))
            mod = harness.load_check(args.property)
            only = set(args.only.split(',')) if args.only else None
            w = harness.Worker(mod, args.tier, seed, i, n, only=only, scale=args.scale)
            report = w.run()
            Path(args.report).write_text(json.dumps(report, ensure_ascii=False, default=str))
            return 0
        return harness.run_parent(args.property, args.tier, seed, only=args.only,
                                  scale=args.scale)
    except harness.HarnessError as exc:
        print(f'HARNESS-ERROR: {exc}', file=sys.stderr)
        return harness.EXIT_HARNESS
    except Exception:  # noqa: BLE001
        print('HARNESS-ERROR: ' + traceback.format_exc(), file=sys.stderr)
        return harness.EXIT_HARNESS
    finally:
        env.cleanup()


if __name__ == '__main__':
    sys.exit(main())
