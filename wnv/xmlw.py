"""Independent WN-LMF writer (shares no code with wn.lmf.dump) and an
independent ElementTree-based reader used to self-test it.

``write(resource, path, style)`` serialises a resource in loader normal form.
``style`` varies what XML lets vary without changing the document's meaning.
"""

from __future__ import annotations

import xml.etree.ElementTree as ET
from pathlib import Path
from typing import Any, Optional

from hypothesis import strategies as st

SCHEMA = 'http://globalwordnet.github.io/schemas/WN-LMF-{v}.dtd'
DC_URI = {
    '1.0': 'http://purl.org/dc/elements/1.1/',
    '1.1': 'https://globalwordnet.github.io/schemas/dc/',
    '1.2': 'https://globalwordnet.github.io/schemas/dc/',
    '1.3': 'https://globalwordnet.github.io/schemas/dc/',
}
DC_ATTRS = ['contributor', 'coverage', 'creator', 'date', 'description',
            'format', 'identifier', 'publisher', 'relation', 'rights',
            'source', 'subject', 'title', 'type']

DEFAULT_STYLE = {
    'quote': 'double',       # double | single | alternate | avoid
    'escape': 'minimal',     # minimal | full | decimal | hex
    'attr_order': 'doc',     # doc | reversed | sorted
    'empty': 'short',        # short | spaced | open-close
    'indent': 2,             # 0..4 ; 0 = everything on one line per top-level element
    'blank_lines': False,
    'comments': False,
    'pad_text': 'none',      # none | spaces | newlines | mixed
    'cdata': False,
    'header_quote': 'double',  # double | single
    'attr_newlines': False,  # line breaks between attributes
}


def styles():
    return st.fixed_dictionaries({
        'quote': st.sampled_from(['double', 'single', 'alternate', 'avoid']),
        'escape': st.sampled_from(['minimal', 'full', 'decimal', 'hex']),
        'attr_order': st.sampled_from(['doc', 'reversed', 'sorted']),
        'empty': st.sampled_from(['short', 'spaced', 'open-close']),
        'indent': st.integers(0, 4),
        'blank_lines': st.booleans(),
        'comments': st.booleans(),
        'pad_text': st.sampled_from(['none', 'spaces', 'newlines', 'mixed']),
        'cdata': st.booleans(),
        'header_quote': st.sampled_from(['double', 'single']),
        'attr_newlines': st.booleans(),
    })


# ---------------------------------------------------------------------------
# generic element tree: (tag, [(attr, value)], [children], text | None)

class El:
    __slots__ = ('tag', 'attrs', 'children', 'text')

    def __init__(self, tag, attrs=None, children=None, text=None):
        self.tag = tag
        self.attrs = attrs or []
        self.children = children or []
        self.text = text


def _b(v: bool) -> str:
    return 'true' if v else 'false'


def _meta_attrs(meta: Optional[dict]) -> list:
    out = []
    for k, v in (meta or {}).items():
        if k in DC_ATTRS:
            out.append((f'dc:{k}', str(v)))
        else:
            out.append((k, str(v)))
    return out


def _opt(attrs: list, d: dict, key: str, name: Optional[str] = None) -> None:
    if key in d and d[key] is not None:
        attrs.append((name or key, d[key]))


def _form_children(d: dict) -> list:
    kids = []
    for p in d.get('pronunciations', []):
        a: list = []
        _opt(a, p, 'variety')
        _opt(a, p, 'notation')
        if 'phonemic' in p:
            a.append(('phonemic', _b(p['phonemic'])))
        _opt(a, p, 'audio')
        kids.append(El('Pronunciation', a, text=p.get('text', '')))
    for t in d.get('tags', []):
        kids.append(El('Tag', [('category', t['category'])], text=t.get('text', '')))
    return kids


def _relation(tag: str, r: dict) -> El:
    return El(tag, [('relType', r['relType']), ('target', r['target'])]
              + _meta_attrs(r.get('meta')))


def _space(a: list, d: dict) -> None:
    """xml:space="preserve" (WN-LMF 1.3): the text is kept exactly as written."""
    if d.get('space') == 'preserve':
        a.append(('xml:space', 'preserve'))


def _example(x: dict) -> El:
    a: list = []
    _opt(a, x, 'language')
    _space(a, x)
    return El('Example', a + _meta_attrs(x.get('meta')), text=x.get('text', ''))


def _frame(f: dict) -> El:
    a: list = []
    _opt(a, f, 'id')
    a.append(('subcategorizationFrame', f['subcategorizationFrame']))
    if f.get('senses'):
        a.append(('senses', ' '.join(f['senses'])))
    return El('SyntacticBehaviour', a)


def _sense(s: dict) -> El:
    if s.get('external'):
        el = El('ExternalSense', [('id', s['id'])])
    else:
        a = [('id', s['id']), ('synset', s['synset'])]
        if 'lexicalized' in s:
            a.append(('lexicalized', _b(s['lexicalized'])))
        _opt(a, s, 'adjposition')
        if s.get('subcat'):
            a.append(('subcat', ' '.join(s['subcat'])))
        el = El('Sense', a + _meta_attrs(s.get('meta')))
    for r in s.get('relations', []):
        el.children.append(_relation('SenseRelation', r))
    for x in s.get('examples', []):
        el.children.append(_example(x))
    for c in s.get('counts', []):
        el.children.append(El('Count', _meta_attrs(c.get('meta')), text=str(c['value'])))
    return el


def _entry(e: dict) -> El:
    if e.get('external'):
        el = El('ExternalLexicalEntry', [('id', e['id'])])
        if e.get('lemma'):
            el.children.append(El('ExternalLemma', [], _form_children(e['lemma'])))
    else:
        el = El('LexicalEntry', [('id', e['id'])] + _meta_attrs(e.get('meta')))
        lem = e['lemma']
        a = [('writtenForm', lem['writtenForm'])]
        _opt(a, lem, 'script')
        a.append(('partOfSpeech', lem['partOfSpeech']))
        el.children.append(El('Lemma', a, _form_children(lem)))
    for f in e.get('forms', []):
        if f.get('external'):
            el.children.append(El('ExternalForm', [('id', f['id'])], _form_children(f)))
        else:
            a = []
            _opt(a, f, 'id')
            a.append(('writtenForm', f['writtenForm']))
            _opt(a, f, 'script')
            el.children.append(El('Form', a, _form_children(f)))
    for s in e.get('senses', []):
        el.children.append(_sense(s))
    for fr in e.get('frames', []):
        el.children.append(_frame(fr))
    return el


def _synset(ss: dict) -> El:
    if ss.get('external'):
        el = El('ExternalSynset', [('id', ss['id'])])
    else:
        a = [('id', ss['id']), ('ili', ss['ili'])]
        _opt(a, ss, 'partOfSpeech')
        if 'lexicalized' in ss:
            a.append(('lexicalized', _b(ss['lexicalized'])))
        if ss.get('members'):
            a.append(('members', ' '.join(ss['members'])))
        _opt(a, ss, 'lexfile')
        el = El('Synset', a + _meta_attrs(ss.get('meta')))
    for d in ss.get('definitions', []):
        a = []
        _opt(a, d, 'language')
        _opt(a, d, 'sourceSense')
        _space(a, d)
        el.children.append(El('Definition', a + _meta_attrs(d.get('meta')),
                              text=d.get('text', '')))
    if ss.get('ili_definition'):
        d = ss['ili_definition']
        a = []
        _space(a, d)
        el.children.append(El('ILIDefinition', a + _meta_attrs(d.get('meta')),
                              text=d.get('text', '')))
    for r in ss.get('relations', []):
        el.children.append(_relation('SynsetRelation', r))
    for x in ss.get('examples', []):
        el.children.append(_example(x))
    return el


def _dependency(tag: str, d: dict) -> El:
    a = [('id', d['id']), ('version', d['version'])]
    _opt(a, d, 'url')
    return El(tag, a)


def _lexicon(lex: dict) -> El:
    a = [('id', lex['id']), ('label', lex['label']), ('language', lex['language']),
         ('email', lex['email']), ('license', lex['license']),
         ('version', lex['version'])]
    for k in ('url', 'citation', 'logo'):
        _opt(a, lex, k)
    el = El('LexiconExtension' if lex.get('extends') else 'Lexicon',
            a + _meta_attrs(lex.get('meta')))
    if lex.get('extends'):
        el.children.append(_dependency('Extends', lex['extends']))
    for r in lex.get('requires', []):
        el.children.append(_dependency('Requires', r))
    for e in lex.get('entries', []):
        el.children.append(_entry(e))
    for ss in lex.get('synsets', []):
        el.children.append(_synset(ss))
    for f in lex.get('frames', []):
        el.children.append(_frame(f))
    return el


def to_tree(resource: dict) -> El:
    v = resource['lmf_version']
    root = El('LexicalResource', [('xmlns:dc', DC_URI[v])])
    for lex in resource['lexicons']:
        root.children.append(_lexicon(lex))
    return root


# ---------------------------------------------------------------------------
# serialisation

def _charref(c: str, mode: str) -> str:
    return f'&#x{ord(c):X};' if mode == 'hex' else f'&#{ord(c)};'


_NAMED = {'&': '&amp;', '<': '&lt;', '>': '&gt;', '"': '&quot;', "'": '&apos;'}


def _esc_attr(value: str, q: str, mode: str) -> str:
    out = []
    for c in value:
        if c in '\t\n\r':
            out.append(_charref(c, 'hex' if mode == 'hex' else 'decimal'))
        elif c in '&<' or c == q:
            out.append(_NAMED[c] if mode in ('minimal', 'full') else _charref(c, mode))
        elif c in '>"\'' and mode == 'full':
            out.append(_NAMED[c])
        elif mode in ('decimal', 'hex') and (ord(c) > 0x7E or c in '>'):
            out.append(_charref(c, mode))
        else:
            out.append(c)
    return ''.join(out)


def _esc_text(value: str, mode: str) -> str:
    out = []
    for c in value:
        if c in '&<':
            out.append(_NAMED[c] if mode in ('minimal', 'full') else _charref(c, mode))
        elif c == '>':
            # '>' must be escaped in ']]>'; escape always for simplicity
            out.append('&gt;' if mode in ('minimal', 'full') else _charref(c, mode))
        elif c in '"\'' and mode == 'full':
            out.append(_NAMED[c])
        elif c == '\r':
            out.append('&#13;')       # a raw CR in text is read back as LF
        elif mode in ('decimal', 'hex') and ord(c) > 0x7E:
            out.append(_charref(c, mode))
        else:
            out.append(c)
    return ''.join(out)


def _cdata(value: str) -> str:
    return '<![CDATA[' + value.replace(']]>', ']]]]><![CDATA[>') + ']]>'


class _Ser:
    def __init__(self, style: dict):
        self.s = dict(DEFAULT_STYLE)
        self.s.update(style or {})
        self.n = 0  # running attribute counter for 'alternate'
        self.out: list[str] = []

    def quote_for(self, value: str) -> str:
        mode = self.s['quote']
        self.n += 1
        if mode == 'double':
            return '"'
        if mode == 'single':
            return "'"
        if mode == 'alternate':
            return '"' if self.n % 2 else "'"
        # avoid: the quote that does not occur in the value
        if '"' in value and "'" not in value:
            return "'"
        return '"'

    def attrs(self, attrs: list, pad: str) -> str:
        order = self.s['attr_order']
        if order == 'reversed':
            attrs = list(reversed(attrs))
        elif order == 'sorted':
            attrs = sorted(attrs, key=lambda kv: kv[0])
        parts = []
        for k, v in attrs:
            q = self.quote_for(v)
            parts.append(f'{k}={q}{_esc_attr(v, q, self.s["escape"])}{q}')
        sep = ('\n' + pad + '    ') if self.s['attr_newlines'] else ' '
        return ''.join(sep + p for p in parts)

    def text(self, value: str, idx: int) -> str:
        if self.s['cdata'] and value and idx % 2 == 0:
            body = _cdata(value)
        else:
            body = _esc_text(value, self.s['escape'])
        pad = self.s['pad_text']
        if pad == 'none' or (pad == 'mixed' and idx % 3 == 0):
            return body
        # interior single spaces may be inflated too: the reader must collapse
        if pad in ('spaces', 'mixed'):
            if not (self.s['cdata'] and value and idx % 2 == 0):
                body = body.replace(' ', '  \t ')
            return '  ' + body + ' \t'
        return '\n    ' + body.replace(' ', '\n ') + '\r\n  ' \
            if not (self.s['cdata'] and value and idx % 2 == 0) \
            else '\n    ' + body + '\r\n  '

    def emit(self, el: El, level: int) -> None:
        ind = self.s['indent']
        pad = ' ' * (ind * level) if ind else ''
        nl = '\n' if ind or level <= 1 else ''
        self.n_el = getattr(self, 'n_el', 0) + 1
        if self.s['comments'] and self.n_el % 4 == 1 and level >= 1:
            self.out.append(f'{pad}<!-- c{self.n_el}: id="x" & <not a tag> -->{nl}')
        if self.s['comments'] and self.n_el % 8 == 5 and level >= 1:
            # a processing instruction may hold anything but '?>' - tag look-alikes too
            # ... the opener of a comment or of a CDATA section as well (every other one)
            opener = ('<!-- ', '<![CDATA[ ')[self.n_el // 16 % 2] if self.n_el % 16 >= 8 else ''
            self.out.append(f'{pad}<?wnv p{self.n_el} {opener}<Lexicon id="ghost" version="9"> ?>{nl}')
        if self.s['blank_lines'] and self.n_el % 5 == 2 and nl:
            self.out.append('\n')
        a = self.attrs(el.attrs, pad)
        if not el.children and el.text is None:
            mode = self.s['empty']
            if mode == 'short':
                self.out.append(f'{pad}<{el.tag}{a}/>{nl}')
            elif mode == 'spaced':
                self.out.append(f'{pad}<{el.tag}{a} />{nl}')
            else:
                self.out.append(f'{pad}<{el.tag}{a}></{el.tag}>{nl}')
            return
        if el.text is not None and not el.children:
            if ('xml:space', 'preserve') in el.attrs:       # verbatim, no decoration
                body = _esc_text(el.text, self.s['escape'])
            else:
                body = self.text(el.text, self.n_el)
            self.out.append(f'{pad}<{el.tag}{a}>{body}</{el.tag}>{nl}')
            return
        self.out.append(f'{pad}<{el.tag}{a}>{nl}')
        for c in el.children:
            self.emit(c, level + 1)
        self.out.append(f'{pad}</{el.tag}>{nl}')


def header(version: str, style: dict) -> str:
    q = "'" if (style or {}).get('header_quote') == 'single' else '"'
    return (f'<?xml version={q}1.0{q} encoding={q}UTF-8{q}?>\n'
            f'<!DOCTYPE LexicalResource SYSTEM {q}{SCHEMA.format(v=version)}{q}>\n')


def dumps(resource: dict, style: Optional[dict] = None) -> str:
    ser = _Ser(style or {})
    ser.emit(to_tree(resource), 0)
    return header(resource['lmf_version'], style or {}) + ''.join(ser.out)


def write(resource: dict, path, style: Optional[dict] = None) -> Path:
    path = Path(path)
    # newline='' : no translation, the bytes are exactly what dumps() built
    with open(path, 'w', encoding='utf-8', newline='') as fh:
        fh.write(dumps(resource, style))
    return path


# ---------------------------------------------------------------------------
# independent reader (ElementTree) -> loader normal form

_NS = {}


_XS = '{http://www.w3.org/XML/1998/namespace}space'


def _text_of(el, d: dict) -> dict:
    """Fill d['text'] from an element: verbatim under xml:space="preserve", else normalised."""
    if el.attrib.get(_XS) == 'preserve':
        d['text'] = el.text or ''
        d['space'] = 'preserve'
    else:
        d['text'] = _norm(el.text)
    return d


def _norm(s: Optional[str]) -> str:
    from .canon import xml_ws_norm
    return xml_ws_norm(s or '')


def _read_meta(el: ET.Element, version: str) -> Optional[dict]:
    uri = DC_URI[version]
    m = {}
    for k, v in el.attrib.items():
        if k.startswith('{' + uri + '}') and k[len(uri) + 2:] in DC_ATTRS:
            m[k[len(uri) + 2:]] = v
        elif k in ('status', 'note', 'confidenceScore'):
            m[k] = v
    return m or None


def _copy(el: ET.Element, d: dict, *keys: str) -> None:
    for k in keys:
        if k in el.attrib:
            d[k] = el.attrib[k]


def _read_form_children(el: ET.Element, d: dict) -> None:
    prons = []
    for p in el.findall('Pronunciation'):
        pd: dict[str, Any] = {'text': _norm(p.text)}
        _copy(p, pd, 'variety', 'notation', 'audio')
        if 'phonemic' in p.attrib:
            pd['phonemic'] = p.attrib['phonemic'] != 'false'
        prons.append(pd)
    if prons:
        d['pronunciations'] = prons
    tags = [{'text': _norm(t.text), 'category': t.attrib['category']}
            for t in el.findall('Tag')]
    if tags:
        d['tags'] = tags


def _read_rels(el: ET.Element, tag: str, v: str) -> list:
    return [{'target': r.attrib['target'], 'relType': r.attrib['relType'],
             'meta': _read_meta(r, v)} for r in el.findall(tag)]


def _read_examples(el: ET.Element, v: str) -> list:
    out = []
    for x in el.findall('Example'):
        d: dict[str, Any] = _text_of(x, {'text': '', 'meta': _read_meta(x, v)})
        _copy(x, d, 'language')
        out.append(d)
    return out


def _read_frames(el: ET.Element) -> list:
    out = []
    for f in el.findall('SyntacticBehaviour'):
        d: dict[str, Any] = {'subcategorizationFrame': f.attrib['subcategorizationFrame']}
        _copy(f, d, 'id')
        if f.attrib.get('senses'):
            d['senses'] = f.attrib['senses'].split()
        out.append(d)
    return out


def _setlist(d: dict, key: str, lst: list) -> None:
    if lst:
        d[key] = lst


def _read_sense(s: ET.Element, v: str) -> dict:
    if s.tag == 'ExternalSense':
        d: dict[str, Any] = {'id': s.attrib['id'], 'external': True}
    else:
        d = {'id': s.attrib['id'], 'synset': s.attrib['synset'], 'meta': _read_meta(s, v)}
        if 'lexicalized' in s.attrib:
            d['lexicalized'] = s.attrib['lexicalized'] != 'false'
        _copy(s, d, 'adjposition')
        if s.attrib.get('subcat'):
            d['subcat'] = s.attrib['subcat'].split()
    _setlist(d, 'relations', _read_rels(s, 'SenseRelation', v))
    _setlist(d, 'examples', _read_examples(s, v))
    _setlist(d, 'counts', [{'value': int(_norm(c.text)), 'meta': _read_meta(c, v)}
                           for c in s.findall('Count')])
    return d


def _read_entry(e: ET.Element, v: str) -> dict:
    if e.tag == 'ExternalLexicalEntry':
        d: dict[str, Any] = {'id': e.attrib['id'], 'external': True}
        xl = e.find('ExternalLemma')
        if xl is not None:
            ld: dict[str, Any] = {'external': True}
            _read_form_children(xl, ld)
            d['lemma'] = ld
    else:
        d = {'id': e.attrib['id'], 'meta': _read_meta(e, v)}
        lem = e.find('Lemma')
        ld = {'writtenForm': lem.attrib['writtenForm'],
              'partOfSpeech': lem.attrib['partOfSpeech']}
        _copy(lem, ld, 'script')
        _read_form_children(lem, ld)
        d['lemma'] = ld
    forms = []
    for f in e:
        if f.tag == 'Form':
            fd: dict[str, Any] = {'writtenForm': f.attrib['writtenForm']}
            _copy(f, fd, 'id', 'script')
        elif f.tag == 'ExternalForm':
            fd = {'id': f.attrib['id'], 'external': True}
        else:
            continue
        _read_form_children(f, fd)
        forms.append(fd)
    _setlist(d, 'forms', forms)
    _setlist(d, 'senses', [_read_sense(s, v) for s in e
                           if s.tag in ('Sense', 'ExternalSense')])
    _setlist(d, 'frames', _read_frames(e))
    return d


def _read_synset(ss: ET.Element, v: str) -> dict:
    if ss.tag == 'ExternalSynset':
        d: dict[str, Any] = {'id': ss.attrib['id'], 'external': True}
    else:
        d = {'id': ss.attrib['id'], 'ili': ss.attrib['ili'], 'meta': _read_meta(ss, v)}
        _copy(ss, d, 'partOfSpeech', 'lexfile')
        if 'lexicalized' in ss.attrib:
            d['lexicalized'] = ss.attrib['lexicalized'] != 'false'
        if ss.attrib.get('members'):
            d['members'] = ss.attrib['members'].split()
        idef = ss.find('ILIDefinition')
        if idef is not None:
            d['ili_definition'] = _text_of(idef, {'text': '', 'meta': _read_meta(idef, v)})
    defs = []
    for df in ss.findall('Definition'):
        dd: dict[str, Any] = _text_of(df, {'text': '', 'meta': _read_meta(df, v)})
        _copy(df, dd, 'language', 'sourceSense')
        defs.append(dd)
    _setlist(d, 'definitions', defs)
    _setlist(d, 'relations', _read_rels(ss, 'SynsetRelation', v))
    _setlist(d, 'examples', _read_examples(ss, v))
    return d


def _read_dep(el: ET.Element) -> dict:
    d = {'id': el.attrib['id'], 'version': el.attrib['version']}
    _copy(el, d, 'url')
    return d


def ref_load(path) -> dict:
    """Parse a WN-LMF file with ElementTree into loader normal form."""
    data = Path(path).read_bytes()
    lines = data.split(b'\n', 2)
    doctype = lines[1].decode('utf-8')
    version = None
    for v in DC_URI:
        if f'WN-LMF-{v}.dtd' in doctype:
            version = v
    assert version, doctype
    root = ET.fromstring(data)
    lexs = []
    for lx in root:
        d: dict[str, Any] = {k: lx.attrib[k] for k in
                             ('id', 'version', 'label', 'language', 'email', 'license')}
        d['meta'] = _read_meta(lx, version)
        _copy(lx, d, 'url', 'citation', 'logo')
        ext = lx.find('Extends')
        if ext is not None:
            d['extends'] = _read_dep(ext)
        _setlist(d, 'requires', [_read_dep(r) for r in lx.findall('Requires')])
        _setlist(d, 'entries', [_read_entry(e, version) for e in lx
                                if e.tag in ('LexicalEntry', 'ExternalLexicalEntry')])
        _setlist(d, 'synsets', [_read_synset(s, version) for s in lx
                                if s.tag in ('Synset', 'ExternalSynset')])
        _setlist(d, 'frames', _read_frames(lx))
        lexs.append(d)
    return {'lmf_version': version, 'lexicons': lexs}
