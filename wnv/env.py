"""Process environment: which wn is imported, scratch space, fresh databases.

Only the touch points the repository's own conftest.py uses are used here:
``wn.config.data_directory`` and ``wn._db.pool``.
"""

from __future__ import annotations

import atexit
import os
import shutil
import sys
import tempfile
from pathlib import Path

VERIF_ROOT = Path(__file__).resolve().parent.parent
REPO_ROOT = Path(os.environ.get('WN_VERIF_REPO', '/repo')).resolve()


class HarnessError(Exception):
    """Something is wrong with the machinery (exit 2), not with wn."""


def import_wn():
    """Import wn and make sure it is the tree under REPO_ROOT."""
    if str(REPO_ROOT) not in sys.path:
        sys.path.insert(0, str(REPO_ROOT))
    import wn  # noqa
    here = Path(wn.__file__).resolve()
    if REPO_ROOT not in here.parents:
        raise HarnessError(f'wn imported from {here}, expected under {REPO_ROOT}')
    return wn


_scratch: Path | None = None


def scratch_root() -> Path:
    """A per-process scratch directory (on /dev/shm when available)."""
    global _scratch
    if _scratch is None:
        base = '/dev/shm' if os.path.isdir('/dev/shm') and os.access('/dev/shm', os.W_OK) \
            else tempfile.gettempdir()
        _scratch = Path(tempfile.mkdtemp(prefix='wnv-', dir=base))
        atexit.register(cleanup)
    return _scratch


def cleanup() -> None:
    global _scratch
    close_pool()
    if _scratch is not None:
        shutil.rmtree(_scratch, ignore_errors=True)
        _scratch = None


def close_pool() -> None:
    try:
        import wn._db
    except Exception:
        return
    for conn in list(wn._db.pool.values()):
        try:
            conn.close()
        except Exception:
            pass
    wn._db.pool.clear()


_counter = 0


def new_dir(prefix: str = 'd') -> Path:
    global _counter
    _counter += 1
    p = scratch_root() / f'{prefix}{_counter}'
    p.mkdir()
    return p


class Db:
    """A database directory; ``use()`` points wn at it."""

    def __init__(self, path: Path | None = None):
        self.dir = path or new_dir('db')

    @property
    def file(self) -> Path:
        return self.dir / 'wn.db'

    def use(self) -> 'Db':
        import wn
        if Path(wn.config._data_directory) != self.dir:
            wn.config.data_directory = self.dir
        return self

    def reopen(self) -> 'Db':
        """Drop pooled connections, as a new process would find the file."""
        close_pool()
        return self.use()

    def copy(self) -> 'Db':
        """Snapshot of the database file in a new directory."""
        import wn._db
        conn = wn._db.pool.get(self.file)
        if conn is not None and conn.in_transaction:
            raise HarnessError('copying a database in the middle of a transaction')
        new = Db()
        if self.file.exists():
            shutil.copyfile(self.file, new.file)
        return new

    def drop(self) -> None:
        import wn._db
        conn = wn._db.pool.pop(self.file, None)
        if conn is not None:
            conn.close()
        shutil.rmtree(self.dir, ignore_errors=True)


def fresh_db() -> Db:
    """A new empty database directory, selected as wn's data directory.

    All pooled connections are closed so that no handle outlives a case.
    """
    close_pool()
    return Db().use()


def purge_scratch() -> None:
    """Remove everything created so far (between cases, to bound disk use)."""
    close_pool()
    root = scratch_root()
    for child in root.iterdir():
        if child.is_dir():
            shutil.rmtree(child, ignore_errors=True)
        else:
            try:
                child.unlink()
            except OSError:
                pass
