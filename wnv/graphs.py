"""Graph lab: small hypernym digraphs, their brute-force reference functions,
a builder that turns a batch of them into one in-memory WN-LMF resource, and
enumeration / Hypothesis strategies (DESIGN.md section 3.6).

A *graph description* is plain JSON data::

    {"n": 4,            # nodes 0..n-1
     "mask": 0x0136,    # edge i -> j (j is a hypernym of i) is bit i*n + j
     "inst": 0x0004,    # subset of mask: edges labelled instance_hypernym
     "pos": "nnnn",     # one part-of-speech letter per node
     "recip": true,     # also declare hyponym / instance_hyponym back edges
     "ids": "plain",    # synset ids 'g<i>-s<k>' | "offset": 'g<i>-<k+1:08d>-<pos>'
     "words": [{"form": "ab", "pos": "n", "nodes": [0, 2], "forms": ["x y"]}]}

Only "n" and "mask" are mandatory.  Everything in this module is deterministic:
no ``random``, no ``hash()``, no iteration over sets of non-integers.
"""

from __future__ import annotations

from typing import Iterable, Iterator, Optional

from hypothesis import strategies as st

from . import env

HYPERNYM, INSTANCE_HYPERNYM = 'hypernym', 'instance_hypernym'
HYPONYM, INSTANCE_HYPONYM = 'hyponym', 'instance_hyponym'
FAKE_ROOT_ID = '*ROOT*'


# ---------------------------------------------------------------------------
# descriptions

def edges_of(n: int, mask: int) -> list:
    """Edge list [(i, j), ...] of an edge mask, in increasing bit order."""
    return [(b // n, b % n) for b in range(n * n) if mask >> b & 1]


def mask_of(n: int, edges: Iterable) -> int:
    m = 0
    for i, j in edges:
        m |= 1 << (i * n + j)
    return m


def describe(n: int, mask: int, inst: int = 0, pos: Optional[str] = None,
             recip: bool = True, ids: str = 'plain', words: Optional[list] = None) -> dict:
    d = {'n': n, 'mask': mask, 'inst': inst & mask, 'pos': pos or 'n' * n, 'recip': bool(recip)}
    if ids != 'plain':
        d['ids'] = ids
    if words:
        d['words'] = words
    return d


def norm(desc: dict) -> dict:
    """Description with every optional key filled in."""
    n = desc['n']
    mask = desc['mask'] & ((1 << (n * n)) - 1)
    pos = desc.get('pos') or 'n' * n
    if len(pos) != n:
        raise env.HarnessError(f'pos layout {pos!r} does not fit n={n}')
    # split: bit k set = node k lives in an extension 'g<i>x' of the graph's lexicon (node 0
    # always stays in the base); the graph is then queried through a Wordnet over both
    split = desc.get('split', 0) & ((1 << n) - 1) & ~1
    if split and desc.get('words'):
        raise env.HarnessError('split graphs carry no words')
    return {'n': n, 'mask': mask, 'inst': desc.get('inst', 0) & mask, 'pos': pos,
            'recip': bool(desc.get('recip', True)), 'ids': desc.get('ids', 'plain'),
            'words': list(desc.get('words') or []), 'split': split}


# ---------------------------------------------------------------------------
# reference graph functions (brute force)

class Graph:
    """Digraph on 0..n-1; ``succ[i]`` = sorted hypernyms of i (may contain i)."""

    def __init__(self, n: int, edges: Iterable):
        self.n = n
        es = sorted(set((int(i), int(j)) for i, j in edges))
        self.edges = es
        self.succ = [[j for (i, j) in es if i == k] for k in range(n)]
        self.pred = [[i for (i, j) in es if j == k] for k in range(n)]

    @classmethod
    def of(cls, desc: dict) -> 'Graph':
        return cls(desc['n'], edges_of(desc['n'], desc['mask']))

    def linked(self, u: int, v: int) -> bool:
        """u and v joined by an edge in either direction."""
        return v in self.succ[u] or u in self.succ[v]


def chains(g: Graph, x: int) -> list:
    """All maximal simple hypernym chains from x, each without x itself.

    A chain x = v0 -> v1 -> ... -> vk visits no node twice and is maximal when
    vk has no hypernym outside {v0..vk}.  The trivial chain (k = 0) yields
    nothing: a synset without (non-self) hypernyms has no hypernym path.
    """
    out = []

    def dfs(path, seen):
        nxt = [v for v in g.succ[path[-1]] if v not in seen]
        if not nxt:
            if len(path) > 1:
                out.append(tuple(path[1:]))
            return
        for v in nxt:
            dfs(path + [v], seen | {v})

    dfs([x], frozenset([x]))
    return out


def distances(g: Graph, x: int) -> dict:
    """BFS distances along hypernym edges from x (x itself at 0)."""
    dist = {x: 0}
    frontier = [x]
    while frontier:
        new = []
        for u in frontier:
            for v in g.succ[u]:
                if v not in dist:
                    dist[v] = dist[u] + 1
                    new.append(v)
        frontier = new
    return dist


def ancestors(g: Graph, x: int) -> set:
    """Reflexive-transitive hypernym closure of x."""
    return set(distances(g, x))


def has_cycle(g: Graph) -> bool:
    """True when some node reaches itself by one or more edges (self-loops count)."""
    for x in range(g.n):
        for s in g.succ[x]:
            if x in ancestors(g, s):
                return True
    return False


def true_roots(g: Graph) -> list:
    return [k for k in range(g.n) if not g.succ[k]]


def true_leaves(g: Graph) -> list:
    return [k for k in range(g.n) if not g.pred[k]]


def with_root(g: Graph) -> Graph:
    """g plus node n (the simulated root) above every node without hypernyms."""
    return Graph(g.n + 1, g.edges + [(r, g.n) for r in true_roots(g)])


def max_depth(g: Graph, x: int) -> int:
    return max((len(c) for c in chains(g, x)), default=0)


def min_depth(g: Graph, x: int) -> int:
    return min((len(c) for c in chains(g, x)), default=0)


def common(g: Graph, a: int, b: int) -> set:
    return ancestors(g, a) & ancestors(g, b)


def sp_len(g: Graph, a: int, b: int) -> Optional[int]:
    """min over common c of d(a,c) + d(b,c); None when nothing is shared."""
    da, db = distances(g, a), distances(g, b)
    sums = [da[c] + db[c] for c in da if c in db]
    return min(sums) if sums else None


def lowest_common(g: Graph, a: int, b: int) -> set:
    """Common hypernyms of greatest max_depth (meaningful on DAGs)."""
    cs = sorted(common(g, a, b))
    if not cs:
        return set()
    depth = {c: max_depth(g, c) for c in cs}
    top = max(depth.values())
    return {c for c in cs if depth[c] == top}


def longest_chain(g: Graph, nodes: Iterable) -> int:
    return max((max_depth(g, x) for x in nodes), default=0)


def total_chains(g: Graph) -> int:
    return sum(len(chains(g, x)) for x in range(g.n))


def pos_class(p: str) -> str:
    return 'a' if p == 's' else p


# ---------------------------------------------------------------------------
# feature tags (generator measurement)

def features(desc: dict) -> list:
    d = norm(desc)
    g = Graph.of(d)
    tags = [f'n={d["n"]}']
    cyc = has_cycle(g)
    tags.append('has-cycle' if cyc else 'dag')
    if any(k in g.succ[k] for k in range(g.n)):
        tags.append('self-loop')
    if any(len([v for v in g.succ[k] if v != k]) >= 2 for k in range(g.n)):
        tags.append('multiple-inheritance')
    if len(true_roots(g)) >= 2:
        tags.append('>=2-roots')
    if not g.edges:
        tags.append('no-edges')
    if not cyc:
        if any(len(chains(g, x)) > len(set(c[-1] for c in chains(g, x))) for x in range(g.n)):
            tags.append('diamond')      # two chains from x converge on one root
        multi = [(a, b) for a in range(g.n) for b in range(a)
                 if len(lowest_common(g, a, b)) >= 2]
        if multi:
            tags.append('>=2-LCS')
        for a, b in multi:
            da, db = distances(g, a), distances(g, b)
            if len({da[c] + db[c] for c in lowest_common(g, a, b)}) > 1:
                tags.append('>=2-LCS-at-different-distances')
                break
    if d['inst']:
        tags.append('instance-edges')
    ps = set(d['pos'])
    if 'a' in ps and 's' in ps:
        tags.append('a/s-mix')
    if len(set(pos_class(p) for p in ps)) > 1:
        tags.append('mixed-pos-classes')
    if not d['recip']:
        tags.append('no-reciprocal')
    return tags


def nontrivial(desc: dict) -> bool:
    """DESIGN C13: multiple inheritance, >= 2 roots or a cycle."""
    t = set(features(desc))
    return bool(t & {'multiple-inheritance', '>=2-roots', 'has-cycle'})


# ---------------------------------------------------------------------------
# builder: batch of descriptions -> one resource; lab handle

def lex_id(i: int) -> str:
    return f'g{i}'


def synset_id(i: int, desc: dict, k: int) -> str:
    if desc.get('ids', 'plain') == 'offset':
        pos = (desc.get('pos') or 'n' * desc['n'])[k]
        return f'g{i}-{k + 1:08d}-{pos}'
    return f'g{i}-s{k}'


def _relations(i: int, d: dict, g: 'Graph', k: int, keep) -> list:
    n = d['n']
    rels = []
    for j in g.succ[k]:
        if keep(j):
            inst = d['inst'] >> (k * n + j) & 1
            rels.append({'target': synset_id(i, d, j),
                         'relType': INSTANCE_HYPERNYM if inst else HYPERNYM, 'meta': None})
    if d['recip']:
        for p in g.pred[k]:
            if keep(p):
                inst = d['inst'] >> (p * n + k) & 1
                rels.append({'target': synset_id(i, d, p),
                             'relType': INSTANCE_HYPONYM if inst else HYPONYM, 'meta': None})
    return rels


def _extension(i: int, desc: dict) -> dict:
    """Extension 'g<i>x' holding the split nodes, and the relations base nodes have to them."""
    d = norm(desc)
    g = Graph.of(d)
    synsets = []
    for k in range(d['n']):
        if d['split'] >> k & 1:
            ss = {'id': synset_id(i, d, k), 'ili': '', 'partOfSpeech': d['pos'][k], 'meta': None}
            rels = _relations(i, d, g, k, lambda t: True)
        else:
            ss = {'id': synset_id(i, d, k), 'external': True}
            rels = _relations(i, d, g, k, lambda t: bool(d['split'] >> t & 1))
        if rels:
            ss['relations'] = rels
        synsets.append(ss)
    return {'id': lex_id(i) + 'x', 'version': '1', 'label': f'graph {i} (extension)',
            'language': 'en', 'email': 'lab@example.org',
            'license': 'https://example.org/license', 'meta': None,
            'extends': {'id': lex_id(i), 'version': '1'}, 'synsets': synsets}


def _lexicon(i: int, desc: dict) -> dict:
    d = norm(desc)
    n = d['n']
    g = Graph.of(d)
    synsets = []
    for k in range(n):
        if d['split'] >> k & 1:
            continue
        rels = _relations(i, d, g, k, lambda t: not d['split'] >> t & 1)
        ss = {'id': synset_id(i, d, k), 'ili': '', 'partOfSpeech': d['pos'][k], 'meta': None}
        if rels:
            ss['relations'] = rels
        synsets.append(ss)
    entries = []
    for wi, w in enumerate(d['words']):
        eid = f'g{i}-w{wi}'
        e = {'id': eid, 'meta': None,
             'lemma': {'writtenForm': w['form'], 'partOfSpeech': w.get('pos', 'n')},
             'senses': [{'id': f'{eid}-{si}', 'synset': synset_id(i, d, k), 'meta': None}
                        for si, k in enumerate(w['nodes'])]}
        if w.get('forms'):
            e['forms'] = [{'writtenForm': f} for f in w['forms']]
        entries.append(e)
    lex = {'id': lex_id(i), 'version': '1', 'label': f'graph {i}', 'language': 'en',
           'email': 'lab@example.org', 'license': 'https://example.org/license', 'meta': None,
           'synsets': synsets}
    if entries:
        lex['entries'] = entries
    return lex


def resource(descs: list) -> dict:
    """One in-memory resource (wn.lmf.load shape): lexicon 'g<i>' version '1' per graph."""
    return {'lmf_version': '1.1', 'lexicons': [_lexicon(i, d) for i, d in enumerate(descs)]}


class Lab:
    """A fresh database holding a batch of graphs, one lexicon each."""

    def __init__(self, descs: list):
        import wn
        self.descs = [norm(d) for d in descs]
        self.db = env.fresh_db()
        wn.add_lexical_resource(resource(self.descs), progress_handler=None)
        exts = [_extension(i, d) for i, d in enumerate(self.descs) if d['split']]
        if exts:      # in a second step: an extension is skipped unless its base is installed
            wn.add_lexical_resource({'lmf_version': '1.1', 'lexicons': exts},
                                    progress_handler=None)

    def wordnet(self, i: int, **kwargs):
        import wn
        kwargs.setdefault('expand', '')
        spec = f'{lex_id(i)}:1'
        if self.descs[i]['split']:
            spec += f' {lex_id(i)}x:1'
        return wn.Wordnet(spec, **kwargs)

    def ids(self, i: int) -> list:
        d = self.descs[i]
        return [synset_id(i, d, k) for k in range(d['n'])]

    def synsets(self, i: int, wordnet=None) -> list:
        """Synset objects of graph i, indexed by node."""
        w = wordnet or self.wordnet(i)
        return [w.synset(s) for s in self.ids(i)]


# ---------------------------------------------------------------------------
# enumeration of all labelled digraphs (self-loops included)

def graph_count(n: int) -> int:
    return 1 << (n * n)


def small_graph_index() -> list:
    """[(n, mask)] for all labelled digraphs with n <= 3: 2 + 16 + 512 = 530."""
    return [(n, m) for n in (1, 2, 3) for m in range(graph_count(n))]


def mix(x: int) -> int:
    """Deterministic 32-bit integer scrambler (not Python's seeded hash)."""
    x &= 0xFFFFFFFF
    x = ((x ^ (x >> 16)) * 0x45D9F3B) & 0xFFFFFFFF
    x = ((x ^ (x >> 16)) * 0x45D9F3B) & 0xFFFFFFFF
    return x ^ (x >> 16)


def derived(n: int, mask: int, variant: int) -> dict:
    """Labelling of an enumerated graph, a fixed function of (n, mask, variant).

    variant 0: every edge 'hypernym', all nouns, reciprocal hyponyms declared.
    variant 1: pseudo-random instance_hypernym subset, a/s part-of-speech mix,
               reciprocal edges declared on three graphs out of four.
    """
    if variant == 0:
        return describe(n, mask)
    h = mix(mask * 31 + n * 7 + 1)
    inst = mix(h + 17) & mask
    pos = ''.join('as'[(h >> k) & 1] for k in range(n))
    return describe(n, mask, inst=inst, pos=pos, recip=(h >> 12) & 3 != 0)


def batches(items: list, size: int) -> Iterator[list]:
    for k in range(0, len(items), size):
        yield items[k:k + size]


# ---------------------------------------------------------------------------
# Hypothesis strategies

def _thin(n: int, mask: int, limit: int) -> int:
    """Drop edges (highest bit first) until the graph has at most *limit*
    maximal simple chains in total; keeps wn's path enumeration affordable."""
    while mask and total_chains(Graph(n, edges_of(n, mask))) > limit:
        mask &= ~(1 << (mask.bit_length() - 1))
    return mask


@st.composite
def masks(draw, n: int) -> int:
    """Edge masks of any density for n nodes."""
    full = (1 << (n * n)) - 1
    m = draw(st.integers(0, full))
    for _ in range(draw(st.integers(0, 2))):
        m &= draw(st.integers(0, full))
    return m


@st.composite
def _perm(draw, n: int) -> list:
    return list(draw(st.permutations(list(range(n)))))


def _dag_edges(draw, n: int):
    order = draw(_perm(n))
    dens = draw(st.sampled_from([1, 2, 3]))          # out of 4
    edges = []
    for x in range(n):
        for y in range(x + 1, n):
            if draw(st.integers(0, 3)) < dens:
                edges.append((order[x], order[y]))
    return order, edges


@st.composite
def dag_biased(draw, n: int) -> int:
    return mask_of(n, _dag_edges(draw, n)[1])


@st.composite
def cycle_biased(draw, n: int) -> int:
    """A DAG plus 1-3 extra edges: the reverse of an existing edge (2-cycle), a
    self-loop, or an edge against the topological order (longer cycles)."""
    order, edges = _dag_edges(draw, n)
    extra = []
    for _ in range(draw(st.integers(1, 3))):
        kind = draw(st.integers(0, 2))
        if kind == 0 and edges:
            i, j = draw(st.sampled_from(edges))
            extra.append((j, i))
        elif kind == 1 or n == 1:
            k = draw(st.integers(0, n - 1))
            extra.append((k, k))
        else:
            x = draw(st.integers(0, n - 2))
            y = draw(st.integers(x + 1, n - 1))
            extra.append((order[y], order[x]))
    return mask_of(n, edges + extra)


@st.composite
def forest(draw, n: int) -> int:
    order = draw(_perm(n))
    edges = []
    for x in range(1, n):
        p = draw(st.integers(-1, x - 1))              # -1: another root
        if p >= 0:
            edges.append((order[x], order[p]))
    return mask_of(n, edges)


@st.composite
def diamond_stack(draw, n: int) -> int:
    """bottom -> two middles -> top -> two middles -> top ...; leftovers hang on."""
    order = draw(_perm(n))
    edges = []
    k = 0
    while k + 3 < n:
        b, m1, m2, t = order[k], order[k + 1], order[k + 2], order[k + 3]
        edges += [(b, m1), (b, m2), (m1, t), (m2, t)]
        k += 3
    used = k + 1
    for x in range(used, n):
        y = draw(st.integers(0, used - 1))
        edges.append((order[x], order[y]) if draw(st.booleans()) else (order[y], order[x]))
    for _ in range(draw(st.integers(0, 2))):          # a few shortcuts
        x = draw(st.integers(0, max(0, used - 2)))
        y = draw(st.integers(x + 1, max(x + 1, used - 1)))
        if y < n:
            edges.append((order[x], order[y]))
    return mask_of(n, edges)


@st.composite
def layered(draw, n: int) -> int:
    """Nodes on levels 0..2 (0 = top); edges only go to a higher level (smaller
    number), mostly to the adjacent one.  Nodes of one level tend to have the
    same depth, so pairs with several lowest common hypernyms - reached over
    different distances through the level-skipping edges - are frequent."""
    level = [draw(st.integers(0, 2)) for _ in range(n)]
    edges = []
    for x in range(n):
        for y in range(n):
            gap = level[x] - level[y]
            if gap >= 1 and draw(st.integers(0, 3)) < (3 if gap == 1 else 1):
                edges.append((x, y))
    return mask_of(n, edges)


@st.composite
def two_lcs(draw, n: int) -> int:
    """A pair (a, b) with two lowest common hypernyms c and d of equal depth that lie
    at different distances: a -> c, a -> x -> d, b -> c, b -> d (optionally a common
    top above c and d); further nodes hang below existing ones.  Needs n >= 5."""
    if n < 5:
        return draw(layered(n))
    order = draw(_perm(n))
    a, b, c, d, x = order[:5]
    edges = [(a, c), (a, x), (x, d), (b, c), (b, d)]
    used = 5
    if n > 5 and draw(st.booleans()):
        t = order[5]
        edges += [(c, t), (d, t)]
        used = 6
    for k in range(used, n):
        for y in draw(st.lists(st.integers(0, k - 1), min_size=1, max_size=2, unique=True)):
            edges.append((order[k], order[y]))
    return mask_of(n, edges)


@st.composite
def shortcut(draw, n: int) -> int:
    """A pair (a, b) whose shortest connecting path runs over a shallow common hypernym r
    while their lowest (deepest) common hypernym z lies off that path:
    z -> r, m -> z, a -> {r, m}, b -> {r, z}; optionally r gets a parent; further nodes hang
    below existing ones.  Distances to the LCS (2 + 1) exceed the shortest-path length (2).
    Needs n >= 5."""
    if n < 5:
        return draw(layered(n))
    order = draw(_perm(n))
    r, z, m, a, b = order[:5]
    edges = [(z, r), (m, z), (a, r), (a, m), (b, r), (b, z)]
    used = 5
    if n > 5 and draw(st.booleans()):
        edges.append((r, order[5]))
        used = 6
    for k in range(used, n):
        for y in draw(st.lists(st.integers(0, k - 1), min_size=1, max_size=2, unique=True)):
            edges.append((order[k], order[y]))
    return mask_of(n, edges)


@st.composite
def via_root(draw, n: int) -> int:
    """Two synsets a, b that share a real hypernym over a long route (a -> x1 -> ... -> xk = b
    with b a root, k >= 3) while both are close to *some* root (a -> r, r a root): with a
    simulated root the shortest connection runs a, r, *ROOT*, b (length 3 < k + 1).
    Needs n >= 6."""
    if n < 6:
        return draw(layered(n))
    order = draw(_perm(n))
    a, r = order[0], order[1]
    chain = order[2:n] if draw(st.booleans()) else order[2:6]
    edges = [(a, r), (a, chain[0])] + [(chain[i], chain[i + 1]) for i in range(len(chain) - 1)]
    for k in range(2 + len(chain), n):
        # extra nodes hang below existing non-root nodes
        y = draw(st.sampled_from([a] + list(chain[:-1])))
        edges.append((order[k], y))
    return mask_of(n, edges)


FAMILIES = {'dag': dag_biased, 'cyclic': cycle_biased, 'forest': forest, 'via-root': via_root,
            'diamonds': diamond_stack, 'layered': layered, 'two-lcs': two_lcs,
            'shortcut': shortcut}


@st.composite
def pos_layouts(draw, n: int, kinds=('n', 'as')) -> str:
    """'n': all nouns; 'as': a/s mix; 'classes': letters of several pos classes."""
    kind = draw(st.sampled_from(list(kinds)))
    if kind == 'n':
        return 'n' * n
    if kind == 'as':
        return ''.join(draw(st.sampled_from('as')) for _ in range(n))
    return ''.join(draw(st.sampled_from('nnvas')) for _ in range(n))


@st.composite
def drawn_graph(draw, n: int, mask_strategy=None, pos_kinds=('n', 'as'), limit: int = 0) -> dict:
    m = draw(mask_strategy if mask_strategy is not None else masks(n))
    if limit:
        m = _thin(n, m, limit)
    full = (1 << (n * n)) - 1
    inst = draw(st.sampled_from([0, full])) if draw(st.booleans()) else draw(st.integers(0, full))
    return describe(n, m, inst=inst, pos=draw(pos_layouts(n, pos_kinds)),
                    recip=draw(st.integers(0, 3)) != 0)


@st.composite
def random_graph(draw, min_n: int = 5, max_n: int = 8, pos_kinds=('n', 'as'),
                 limit: int = 120, families=None) -> dict:
    """A graph of one of the families; 'family' is recorded in the description."""
    n = draw(st.integers(min_n, max_n))
    fam = draw(st.sampled_from(sorted(families or FAMILIES)))
    d = draw(drawn_graph(n, FAMILIES[fam](n), pos_kinds, limit))
    d['family'] = fam
    return d


# ---------------------------------------------------------------------------
# driving wn from an oracle that checks many graphs per case

def guarded(fn, *args, **kwargs):
    """Call into wn.  Returns ('ok', value), ('wn.Error', message) or
    ('exception', (type name, 'wn/<file>:<func>', message)) so that one failing
    query does not hide the rest of a batch.  Timeouts, harness errors and
    exceptions that do not come out of wn code propagate."""
    import wn
    from .harness import CaseTimeout, _innermost_repo_frame
    try:
        return 'ok', fn(*args, **kwargs)
    except (CaseTimeout, env.HarnessError, KeyboardInterrupt):
        raise
    except wn.Error as exc:
        return 'wn.Error', str(exc)
    except Exception as exc:  # noqa: BLE001
        where = _innermost_repo_frame(exc)
        if where is None:
            raise
        return 'exception', (type(exc).__name__, where, f'{type(exc).__name__}: {exc}'[:300])


# ---------------------------------------------------------------------------
# extras for the entry layer (C15)

def weak_components(g: Graph) -> list:
    """Weakly connected components as sorted node lists, ordered by smallest node."""
    comp = {}
    for x in range(g.n):
        if x in comp:
            continue
        comp[x] = x
        stack = [x]
        while stack:
            u = stack.pop()
            for v in g.succ[u] + g.pred[u]:
                if v not in comp:
                    comp[v] = x
                    stack.append(v)
    return [[k for k in range(g.n) if comp[k] == r] for r in sorted(set(comp.values()))]


def converging(g: Graph, x: int) -> bool:
    """True when two different simple hypernym paths from x reach the same synset."""
    arrivals = {}

    def dfs(u, seen):
        for v in g.succ[u]:
            if v not in seen:
                arrivals[v] = arrivals.get(v, 0) + 1
                dfs(v, seen | {v})

    dfs(x, frozenset([x]))
    return any(c >= 2 for c in arrivals.values())


def word_synsets(desc: dict, token: str) -> list:
    """Reference lookup: nodes having a sense of an entry one of whose written
    forms (lemma or other form) equals *token* exactly."""
    nodes = set()
    for w in desc.get('words') or []:
        if token == w['form'] or token in (w.get('forms') or []):
            nodes.update(w['nodes'])
    return sorted(nodes)


@st.composite
def batch_of(draw, graph_strategy, sizes=(1, 8, 6, 10, 8)) -> dict:
    """A case {'graphs': [...]}: batch size drawn from *sizes* (put 1 first so that
    shrinking can reduce a failing batch to a single graph)."""
    k = draw(st.sampled_from(list(sizes)))
    return {'graphs': [draw(graph_strategy) for _ in range(k)]}
