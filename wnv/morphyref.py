"""Independent reference for C17 (Morphy): the 24 detachment rules Wn documents
itself as using (DESIGN.md Appendix C), the exception-map semantics and the
small form search of docs/guides/lemmatization.rst on a plain-data model.

Nothing here imports wn.
"""

from __future__ import annotations

from typing import Optional

# (pos, suffix, replacement); 'a' rules are shared by 's'
RULES: list[tuple[str, str, str]] = [
    ('n', 's', ''), ('n', 'ces', 'x'), ('n', 'ses', 's'), ('n', 'ves', 'f'),
    ('n', 'ives', 'ife'), ('n', 'xes', 'x'), ('n', 'xes', 'xis'), ('n', 'zes', 'z'),
    ('n', 'ches', 'ch'), ('n', 'shes', 'sh'), ('n', 'men', 'man'), ('n', 'ies', 'y'),
    ('v', 's', ''), ('v', 'ies', 'y'), ('v', 'es', 'e'), ('v', 'es', ''),
    ('v', 'ed', 'e'), ('v', 'ed', ''), ('v', 'ing', 'e'), ('v', 'ing', ''),
    ('a', 'er', ''), ('a', 'est', ''), ('a', 'er', 'e'), ('a', 'est', 'e'),
]
assert len(RULES) == 24 and len(set(RULES)) == 24

HANDLED = ('n', 'v', 'a', 's', 'r')          # parts of speech Morphy deals with
_FAMILY = {'n': 'n', 'v': 'v', 'a': 'a', 's': 'a', 'r': None}
RULES_FOR = {p: [r for r in RULES if r[0] == _FAMILY[p]] for p in HANDLED}
SUFFIXES = sorted({r[1] for r in RULES})
REPLACEMENTS = sorted({r[2] for r in RULES if r[2]})


def rule_id(rule) -> str:
    return f'{rule[0]}:{rule[1]}>{rule[2] or "-"}'


RULE_IDS = [rule_id(r) for r in RULES]


def considered(pos: Optional[str]) -> tuple:
    """Parts of speech whose rules/lemmas a call with *pos* is about."""
    if pos is None:
        return HANDLED
    if pos in HANDLED:
        return (pos,)
    return ()


def outputs(q: str, pos: str) -> list[tuple[tuple, str]]:
    """(rule, output) for every rule of *pos* that applies to *q*: q ends with the
    suffix and is strictly longer than it."""
    out = []
    for rule in RULES_FOR.get(pos, ()):
        _, suf, repl = rule
        if q.endswith(suf) and len(q) > len(suf):
            out.append((rule, q[:len(q) - len(suf)] + repl))
    return out


def whole_word(q: str, pos: str) -> list[tuple]:
    """Rules of *pos* whose suffix is the whole query (must not fire)."""
    return [r for r in RULES_FOR.get(pos, ()) if q == r[1]]


def inflect(lemma: str, rule) -> Optional[str]:
    """Run a rule backwards: the inflected form from which *rule* yields *lemma*
    (None when the lemma does not end with the replacement or the stem is empty)."""
    _, suf, repl = rule
    if repl:
        if not lemma.endswith(repl):
            return None
        stem = lemma[:len(lemma) - len(repl)]
    else:
        stem = lemma
    if not stem:
        return None
    return stem + suf


class Model:
    """One lexicon (wn.lmf.load shape) as plain look-up tables."""

    def __init__(self, lex: dict):
        self.lex_id = lex['id']
        self.spec = f'{lex["id"]}:{lex["version"]}'
        self.synset_pos = {ss['id']: ss.get('partOfSpeech') for ss in lex.get('synsets', [])}
        self.entries = []          # (id, pos, lemma, [other forms], [(sense id, synset id)])
        self.lemmas: dict = {}     # pos -> {lemma}
        self.exc: dict = {}        # pos -> {form -> {lemma}}
        for e in lex.get('entries', []):
            pos = e['lemma']['partOfSpeech']
            lemma = e['lemma']['writtenForm']
            others = [f['writtenForm'] for f in e.get('forms', [])]
            senses = [(s['id'], s['synset']) for s in e.get('senses', [])]
            self.entries.append((e['id'], pos, lemma, others, senses))
            self.lemmas.setdefault(pos, set()).add(lemma)
            for f in others:
                self.exc.setdefault(pos, {}).setdefault(f, set()).add(lemma)
        self._idx: dict = {}

    # -- Morphy -----------------------------------------------------------
    def sources(self, q: str, p: str) -> dict:
        """The lemmas an initialised Morphy must return under key *p*, by reason."""
        lem = self.lemmas.get(p, set())
        return {
            'self': {q} & lem,
            'exception': set(self.exc.get(p, {}).get(q, ())),
            'rule': {o for _, o in outputs(q, p) if o in lem},
        }

    # -- form search (docs/guides/lemmatization.rst) ------------------------
    def _index(self, all_forms: bool, norm: bool) -> dict:
        key = (all_forms, norm)
        if key not in self._idx:
            idx: dict = {}
            for i, (_id, _pos, lemma, others, _senses) in enumerate(self.entries):
                for w in ([lemma] + others) if all_forms else [lemma]:
                    idx.setdefault(w, set()).add(i)
                    if norm:
                        idx.setdefault(normal(w), set()).add(i)
            self._idx[key] = idx
        return self._idx[key]

    def find(self, kind: str, pos: Optional[str], form: str, all_forms: bool, norm: bool) -> set:
        """Identifiers a lemmatizer-less search for (*form*, *pos*) compares the
        form with: stored forms and, when normalisation is on, their normal forms."""
        hits = self._index(all_forms, norm).get(form, ())
        out = set()
        for i in hits:
            eid, epos, _lemma, _others, senses = self.entries[i]
            if kind == 'words':
                if pos is None or epos == pos:
                    out.add(eid)
            elif kind == 'senses':
                if pos is None or epos == pos:
                    out.update(s for s, _ in senses)
            else:
                out.update(ss for _, ss in senses
                           if pos is None or self.synset_pos.get(ss) == pos)
        return out

    def search(self, kind: str, proposals: dict, all_forms: bool, norm: bool) -> list:
        """Acceptable result sets for a search over the proposed (pos, form) pairs.

        The guide says a query that finds nothing is repeated with the normalised
        word form; with several successive queries it does not say whether
        "nothing" is judged per query or for all of them, so both readings are
        returned (they coincide unless a proposed form changes under
        normalisation)."""
        pairs = [(p, f) for p in sorted(proposals, key=lambda x: (x is not None, x or ''))
                 for f in sorted(proposals[p])]
        first = [self.find(kind, p, f, all_forms, norm) for p, f in pairs]
        union1 = set().union(*first) if first else set()
        if not norm:
            return [union1]
        second = [self.find(kind, p, normal(f), all_forms, norm) for p, f in pairs]
        glob = union1 if union1 else (set().union(*second) if second else set())
        per = set()
        for a, b in zip(first, second):
            per |= a if a else b
        return [glob] if glob == per else [glob, per]


def normal(s: str) -> str:
    """Default normal form, for the plain-ASCII forms C17 generates (downcasing;
    NFKD and mark removal are the identity on ASCII)."""
    assert s.isascii()
    return s.lower()
