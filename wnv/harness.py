"""Check runner: sharding, counting, shrinking, replay files, evidence.

A property check is a module ``wnv.checks.cXX`` exposing

    PROPERTY = 'C07'
    LEVEL = 'exploration'                # evidence level
    RULE = '...'                         # how cases are generated / what is non-trivial
    ASSUMPTIONS = [...]
    SUBS = [Sub(...), ...]

Each ``Sub`` pairs a generator of JSON-able *cases* with an *oracle*
``case -> list[Disc]`` that drives the real wn code and returns discrepancies.
The same oracle function serves generation, shrinking and replay.
"""

from __future__ import annotations

import importlib
import json
import os
import re
import signal
import subprocess
import sys
import time
import traceback
from dataclasses import dataclass, field
from pathlib import Path
from typing import Any, Callable, Iterable, Optional

from . import env
from .canon import fingerprint
from .env import HarnessError, VERIF_ROOT

EXIT_OK, EXIT_VIOLATION, EXIT_HARNESS = 0, 1, 2


# ---------------------------------------------------------------------------
# data

@dataclass
class Disc:
    """One discrepancy between the oracle's expectation and wn's behaviour."""
    kind: str
    path: str = ''
    expected: Any = None
    got: Any = None
    note: str = ''

    def as_dict(self) -> dict:
        return {'kind': self.kind, 'path': self.path,
                'expected': _jsonable(self.expected), 'got': _jsonable(self.got),
                'note': self.note}

    def bucket(self) -> str:
        return f'{self.kind}|{_norm_path(self.path)}'


def _norm_path(p: str) -> str:
    p = re.sub(r'\([^)]*\)', '()', p)           # Wordnet(<specs>)
    p = re.sub(r'/[^/]*\|[^/\[{]*', '/<key>', p)  # entity keys "<lexicon spec>|<id>"
    p = re.sub(r'\[[^\]]*\]', '[]', p)
    p = re.sub(r'\d+', '#', p)
    return p


def _jsonable(x: Any, depth: int = 0) -> Any:
    if depth > 6:
        return repr(x)[:200]
    if isinstance(x, (str, int, float, bool)) or x is None:
        return x
    if isinstance(x, dict):
        return {str(k): _jsonable(v, depth + 1) for k, v in list(x.items())[:50]}
    if isinstance(x, (list, tuple, set, frozenset)):
        xs = list(x)
        if isinstance(x, (set, frozenset)):
            xs = sorted(xs, key=repr)
        return [_jsonable(v, depth + 1) for v in xs[:50]]
    return repr(x)[:300]


@dataclass
class Sub:
    name: str
    oracle: Callable[[Any], list]
    classify: Callable[[Any], tuple]          # case -> (nontrivial: bool, tags: list[str])
    strategy: Optional[Callable[[str], Any]] = None     # tier -> hypothesis strategy of cases
    budget: dict = field(default_factory=lambda: {'quick': 20, 'thorough': 100})  # per shard
    enumerate: Optional[Callable[[str, int, int], Iterable]] = None  # tier, shard, nshards
    exhaustive_note: str = ''
    case_timeout: Optional[float] = None      # seconds; firing is a violation iff timeout_is_violation
    timeout_is_violation: bool = False
    fingerprint: Optional[Callable[[Any], str]] = None
    sample: Optional[Callable[[Any], Any]] = None        # compact rendering for evidence
    purge_every: int = 20
    require_tags: tuple = ()                  # tags that must be hit at least once per run (all shards)


class CaseTimeout(Exception):
    pass


class _Unknown(Exception):
    """Raised inside a Hypothesis test body to make Hypothesis shrink."""


# ---------------------------------------------------------------------------
# known findings

class Known:
    def __init__(self, prop: str):
        self.entries = []
        f = VERIF_ROOT / 'known_findings.json'
        if f.exists():
            data = json.loads(f.read_text())
            for e in data.get('findings', []):
                if e.get('property') == prop:
                    self.entries.append(e)
        self.hits: dict[str, int] = {}

    def match(self, sub: str, disc: Disc, case: Any) -> Optional[str]:
        for e in self.entries:
            if e.get('status') != 'open':
                continue
            m = e.get('match', {})
            if 'sub' in m and m['sub'] != sub:
                continue
            if 'kind' in m and m['kind'] != disc.kind:
                continue
            if 'kind_regex' in m and not re.search(m['kind_regex'], disc.kind):
                continue
            if 'path_regex' in m and not re.search(m['path_regex'], disc.path):
                continue
            if 'note_regex' in m and not re.search(m['note_regex'], disc.note or ''):
                continue
            if 'predicate' in m:
                from . import findings
                if not getattr(findings, m['predicate'])(disc, case):
                    continue
            return e['key']
        return None

    def what(self, key: str) -> str:
        for e in self.entries:
            if e['key'] == key:
                return e.get('what', '')
        return ''


# ---------------------------------------------------------------------------
# worker: runs the subs of one property for one shard

class Worker:
    def __init__(self, mod, tier: str, seed: int, shard: int, nshards: int,
                 only: Optional[set] = None, scale: float = 1.0):
        self.mod = mod
        self.prop = mod.PROPERTY
        self.tier = tier
        os.environ['WNV_TIER'] = tier
        self.seed = seed
        self.shard = shard
        self.nshards = nshards
        self.only = only
        self.scale = scale
        self.known = Known(self.prop)
        self.evaluations = 0
        self.nontrivial: set[str] = set()
        self.tags: dict[str, int] = {}
        self.samples: list = []
        self.failures: list[dict] = []     # replay dicts
        self.exhaustive: dict[str, dict] = {}
        self.per_sub: dict[str, dict] = {}
        self.inconclusive: list[str] = []
        self._n_since_purge = 0

    # -- one case -------------------------------------------------------------
    def run_case(self, sub: Sub, case: Any, count: bool = True) -> list[Disc]:
        """Run the oracle; returns discrepancies not covered by a known finding."""
        self._n_since_purge += 1
        if self._n_since_purge >= sub.purge_every:
            env.purge_scratch()
            self._n_since_purge = 0
        discs = self._call_oracle(sub, case)
        unknown = []
        for d in discs:
            key = self.known.match(sub.name, d, case)
            if key is None:
                unknown.append(d)
            elif count:
                self.known.hits[key] = self.known.hits.get(key, 0) + 1
        if count:
            self.evaluations += 1
            ps = self.per_sub.setdefault(sub.name, {'evaluations': 0, 'nontrivial': 0})
            ps['evaluations'] += 1
            nontrivial, tags = sub.classify(case)
            for t in tags:
                self.tags[t] = self.tags.get(t, 0) + 1
            if nontrivial:
                fp = sub.name + ':' + (sub.fingerprint(case) if sub.fingerprint
                                       else fingerprint(case))
                if fp not in self.nontrivial:
                    self.nontrivial.add(fp)
                    ps['nontrivial'] += 1
                    if len(self.samples) < 2 or (len(self.samples) < 4
                                                 and ps['nontrivial'] in (7, 23)):
                        self.samples.append({'sub': sub.name,
                                             'case': (sub.sample or _compact)(case)})
        return unknown

    def _call_oracle(self, sub: Sub, case: Any) -> list[Disc]:
        timeout = sub.case_timeout
        try:
            if timeout:
                signal.signal(signal.SIGALRM, _alarm)
                signal.setitimer(signal.ITIMER_REAL, timeout)
            try:
                return list(sub.oracle(case) or [])
            finally:
                if timeout:
                    signal.setitimer(signal.ITIMER_REAL, 0)
        except CaseTimeout:
            if sub.timeout_is_violation:
                return [Disc('timeout', sub.name, f'< {timeout}s', 'did not terminate')]
            raise HarnessError(f'{sub.name}: case exceeded {timeout}s (inconclusive)')
        except (HarnessError, KeyboardInterrupt):
            raise
        except BaseException as exc:  # noqa: BLE001
            where = _innermost_repo_frame(exc)
            if where is None:
                raise HarnessError(
                    f'{sub.name}: oracle raised outside wn: '
                    + ''.join(traceback.format_exception(exc))[-3000:]) from exc
            return [Disc(f'exception:{type(exc).__name__}', where, 'no exception',
                         f'{type(exc).__name__}: {exc}'[:500])]

    # -- subs -----------------------------------------------------------------
    def run(self) -> dict:
        t0 = time.time()
        for sub in self.mod.SUBS:
            if self.only and sub.name not in self.only:
                continue
            self._run_regressions(sub)
            if sub.enumerate is not None:
                self._run_enumeration(sub)
            if sub.strategy is not None:
                self._run_hypothesis(sub)
        return {
            'property': self.prop, 'tier': self.tier, 'seed': self.seed,
            'shard': self.shard, 'evaluations': self.evaluations,
            'nontrivial': sorted(self.nontrivial), 'tags': self.tags,
            'samples': self.samples, 'failures': self.failures,
            'known_hits': self.known.hits, 'exhaustive': self.exhaustive,
            'per_sub': self.per_sub, 'inconclusive': self.inconclusive,
            'wall_s': time.time() - t0,
        }

    def _run_regressions(self, sub: Sub) -> None:
        d = VERIF_ROOT / 'regress' / self.prop
        if not d.is_dir():
            return
        # the regression cases are dealt out to the shards
        for k, f in enumerate(sorted(d.glob('*.json'))):
            if k % max(1, self.nshards) != self.shard:
                continue
            rep = json.loads(f.read_text())
            if rep.get('sub') != sub.name:
                continue
            unknown = self.run_case(sub, rep['case'])
            if unknown:
                self._record_failure(sub, rep['case'], unknown, origin=f'regress/{f.name}')

    def _run_enumeration(self, sub: Sub) -> None:
        n = 0
        seen_buckets: set[str] = set()
        for case in sub.enumerate(self.tier, self.shard, self.nshards):
            n += 1
            unknown = self.run_case(sub, case)
            if unknown:
                b = unknown[0].bucket()
                if b not in seen_buckets and len(seen_buckets) < 5:
                    seen_buckets.add(b)
                    self._record_failure(sub, case, unknown, origin='enumeration')
        self.exhaustive[sub.name] = {'cases': n, 'note': sub.exhaustive_note}

    def _run_hypothesis(self, sub: Sub) -> None:
        import hypothesis
        from hypothesis import HealthCheck, Phase, given, settings
        n = max(1, int(sub.budget.get(self.tier, 20) * self.scale))
        hseed = (self.seed * 64 + self.shard) * 1000 + _stable(sub.name)
        strategy = sub.strategy(self.tier)
        common = dict(deadline=None, database=None, derandomize=False,
                      report_multiple_bugs=False, print_blob=False,
                      suppress_health_check=[HealthCheck.too_slow,
                                             HealthCheck.data_too_large,
                                             HealthCheck.large_base_example])

        # pass 1: collect buckets without stopping at the first failure
        buckets: dict[str, tuple] = {}

        @hypothesis.seed(hseed)
        @settings(max_examples=n, phases=[Phase.generate], **common)
        @given(strategy)
        def collect(case):
            unknown = self.run_case(sub, case)
            if unknown:
                b = unknown[0].bucket()
                size = len(json.dumps(_jsonable(case), default=str))
                if b not in buckets or size < buckets[b][0]:
                    buckets[b] = (size, case, unknown)

        try:
            collect()
        except HarnessError:
            raise
        except hypothesis.errors.Unsatisfiable as exc:
            raise HarnessError(f'{sub.name}: generator unsatisfiable: {exc}') from exc
        except hypothesis.errors.FailedHealthCheck as exc:
            raise HarnessError(f'{sub.name}: generator health check: {exc}') from exc

        # pass 2: shrink one representative per bucket (at most 3)
        shrink_budget = 25.0 if self.tier == 'quick' else 90.0
        for b, (_size, case0, unknown0) in list(buckets.items())[:3]:
            best = self._shrink(sub, strategy, hseed, n, common, b, case0, unknown0,
                                shrink_budget)
            self._record_failure(sub, best['case'], best['discs'], origin='hypothesis')
        if len(buckets) > 3:
            for b, (_s, case0, unknown0) in list(buckets.items())[3:6]:
                self._record_failure(sub, case0, unknown0, origin='hypothesis-unshrunk')

    def _shrink(self, sub, strategy, hseed, n, common, b, case0, unknown0, budget) -> dict:
        import hypothesis
        from hypothesis import Phase, given, settings
        best = {'case': case0, 'discs': unknown0}
        deadline = time.time() + budget

        @hypothesis.seed(hseed)
        @settings(max_examples=n, phases=[Phase.generate, Phase.shrink], **common)
        @given(strategy)
        def shrink(case):
            if time.time() > deadline:
                return
            unknown = [d for d in self.run_case(sub, case, count=False)
                       if d.bucket() == b]
            if unknown:
                best['case'] = case
                best['discs'] = unknown
                raise _Unknown()

        try:
            shrink()
        except HarnessError:
            raise
        except _Unknown:
            pass
        except Exception:  # noqa: BLE001
            # Flaky once the shrink deadline has passed, or the shrinker tripping over
            # it; the best case found so far is already stored in ``best``
            pass
        return best

    def _record_failure(self, sub: Sub, case: Any, discs: list, origin: str) -> None:
        self.failures.append({
            'property': self.prop, 'sub': sub.name, 'tier': self.tier,
            'verif_seed': self.seed, 'pythonhashseed': os.environ.get('PYTHONHASHSEED'),
            'origin': origin, 'case': _jsonable_case(case),
            'discrepancies': [d.as_dict() for d in discs[:20]],
        })


def _alarm(signum, frame):
    raise CaseTimeout()


def _stable(s: str) -> int:
    h = 0
    for c in s:
        h = (h * 131 + ord(c)) % 997
    return h


def _compact(case: Any) -> Any:
    s = json.dumps(_jsonable_case(case), ensure_ascii=False, default=str)
    if len(s) <= 4000:
        return _jsonable_case(case)
    return {'truncated_json': s[:4000]}


def _jsonable_case(case: Any) -> Any:
    try:
        json.dumps(case)
        return case
    except TypeError:
        return _jsonable(case)


def _innermost_repo_frame(exc: BaseException) -> Optional[str]:
    """'file:function' of the innermost frame if it lies in the wn package."""
    tb = exc.__traceback__
    last = None
    while tb is not None:
        last = tb
        tb = tb.tb_next
    if last is None:
        return None
    fn = last.tb_frame.f_code.co_filename
    repo_wn = str(env.REPO_ROOT / 'wn')
    if fn.startswith(repo_wn):
        return f'wn/{Path(fn).name}:{last.tb_frame.f_code.co_name}'
    return None


# ---------------------------------------------------------------------------
# parent: shards, merge, evidence, exit code

def load_check(prop: str):
    return importlib.import_module(f'wnv.checks.{prop.lower()}')


def shards_for(tier: str, mod) -> int:
    want = getattr(mod, 'SHARDS', {'quick': 4, 'thorough': 16})[tier]
    return max(1, min(want, os.cpu_count() or 1))


def run_parent(prop: str, tier: str, seed: int, only: Optional[str] = None,
               scale: float = 1.0) -> int:
    t0 = time.time()
    mod = load_check(prop)
    n = shards_for(tier, mod)
    outdir = env.new_dir('reports')
    procs = []
    for i in range(n):
        rep = outdir / f'shard{i}.json'
        cmd = [sys.executable, '-m', 'wnv.run', prop, '--tier', tier, '--seed', str(seed),
               '--shard', f'{i}/{n}', '--report', str(rep), '--scale', str(scale)]
        if only:
            cmd += ['--only', only]
        e = dict(os.environ)
        e['PYTHONHASHSEED'] = str(seed % (2 ** 32))
        e['PYTHONPATH'] = str(VERIF_ROOT) + os.pathsep + e.get('PYTHONPATH', '')
        procs.append((i, rep, subprocess.Popen(cmd, env=e, cwd=str(VERIF_ROOT),
                                               stdout=subprocess.PIPE,
                                               stderr=subprocess.STDOUT, text=True)))
    reports = []
    harness_errors = []
    for i, rep, p in procs:
        out, _ = p.communicate()
        if p.returncode != 0 or not rep.exists():
            harness_errors.append(f'shard {i} exit {p.returncode}:\n{out[-4000:]}')
        else:
            reports.append(json.loads(rep.read_text()))
    if harness_errors:
        for h in harness_errors:
            print('HARNESS-ERROR:', h, file=sys.stderr)
        return EXIT_HARNESS
    return finish(mod, tier, seed, reports, time.time() - t0)


def finish(mod, tier: str, seed: int, reports: list, wall: float) -> int:
    prop = mod.PROPERTY
    evaluations = sum(r['evaluations'] for r in reports)
    nontrivial = set()
    tags: dict[str, int] = {}
    known_hits: dict[str, int] = {}
    samples = []
    failures = []
    exhaustive: dict[str, dict] = {}
    per_sub: dict[str, dict] = {}
    for r in reports:
        nontrivial.update(r['nontrivial'])
        for k, v in r['tags'].items():
            tags[k] = tags.get(k, 0) + v
        for k, v in r['known_hits'].items():
            known_hits[k] = known_hits.get(k, 0) + v
        samples.extend(r['samples'])
        failures.extend(r['failures'])
        for k, v in r['exhaustive'].items():
            e = exhaustive.setdefault(k, {'cases': 0, 'note': v.get('note', '')})
            e['cases'] += v['cases']
        for k, v in r['per_sub'].items():
            e = per_sub.setdefault(k, {'evaluations': 0})
            e['evaluations'] += v['evaluations']
    for k in per_sub:
        per_sub[k]['distinct_nontrivial'] = sum(1 for fp in nontrivial
                                                if fp.startswith(k + ':'))

    # replay files, de-duplicated by bucket
    rdir = VERIF_ROOT / 'replays' / prop
    written = []
    seen = set()
    for f in failures:
        b = f['sub'] + '|' + '|'.join(sorted({d['kind'] + '@' + _norm_path(d['path'])
                                              for d in f['discrepancies'][:1]}))
        if b in seen:
            continue
        seen.add(b)
        rdir.mkdir(parents=True, exist_ok=True)
        name = fingerprint(f['case'])[:12] + '.json'
        (rdir / name).write_text(json.dumps(f, ensure_ascii=False, indent=1, default=str))
        written.append((rdir / name, f))

    known = Known(prop)
    for key, cnt in sorted(known_hits.items()):
        print(f'KNOWN-FINDING: property={prop} {key}: {known.what(key)} (hit {cnt}x)')
    for path, f in written:
        d0 = f['discrepancies'][0] if f['discrepancies'] else {}
        print(f'VIOLATION property={prop} replay={path}')
        print(f'  sub={f["sub"]} kind={d0.get("kind")} path={d0.get("path")}'
              f' expected={str(d0.get("expected"))[:200]!r} got={str(d0.get("got"))[:200]!r}')

    missing = []
    for sub in mod.SUBS:
        for t in sub.require_tags:
            if per_sub.get(sub.name) and not tags.get(t):
                missing.append(f'{sub.name}:{t}')

    all_exhaustive = bool(exhaustive) and all(
        s.strategy is None for s in mod.SUBS if s.name in per_sub)
    samples = samples[:6]
    coverage = {
        'evaluations': evaluations,
        'distinct_nontrivial': len(nontrivial),
        'rule': mod.RULE,
        'samples': samples or [{'note': 'no non-trivial case produced'}],
        'classes': dict(sorted(tags.items())),
        'per_subcheck': per_sub,
        'known_finding_hits': known_hits,
        'exhaustive_families': exhaustive,
        'exhaustive': all_exhaustive,
        'shards': len(reports),
        'missing_required_classes': missing,
    }
    evidence = {
        'property_id': prop, 'tier': tier, 'seed': seed,
        'level': getattr(mod, 'LEVEL', 'exploration'),
        'coverage': coverage,
        'assumptions': list(getattr(mod, 'ASSUMPTIONS', [])),
        'wall_s': round(wall, 2),
        'violations': len(written),
    }
    edir = VERIF_ROOT / 'evidence'
    edir.mkdir(exist_ok=True)
    (edir / f'{prop}.json').write_text(
        json.dumps(evidence, ensure_ascii=False, indent=1, default=str))
    print(f'{prop} {tier} seed={seed}: {evaluations} cases, {len(nontrivial)} distinct '
          f'non-trivial, {len(written)} violation(s), {sum(known_hits.values())} '
          f'known-finding hit(s), {wall:.1f}s')
    if written:
        return EXIT_VIOLATION
    if missing:
        print(f'HARNESS-ERROR: generator did not reach required classes: {missing}',
              file=sys.stderr)
        return EXIT_HARNESS
    return EXIT_OK


def run_replay(prop: str, path: str) -> int:
    mod = load_check(prop)
    rep = json.loads(Path(path).read_text())
    sub = next((s for s in mod.SUBS if s.name == rep['sub']), None)
    if sub is None:
        print(f'HARNESS-ERROR: no subcheck {rep["sub"]}', file=sys.stderr)
        return EXIT_HARNESS
    w = Worker(mod, rep.get('tier', 'quick'), int(rep.get('verif_seed', 0)), 0, 1)
    unknown = w.run_case(sub, rep['case'])
    for key, cnt in w.known.hits.items():
        print(f'KNOWN-FINDING: property={prop} {key}: {w.known.what(key)}')
    if unknown:
        print(f'VIOLATION property={prop} replay={path}')
        for d in unknown[:10]:
            print('  ', json.dumps(d.as_dict(), ensure_ascii=False, default=str)[:600])
        return EXIT_VIOLATION
    print(f'{prop}: replay {path} passes')
    return EXIT_OK
