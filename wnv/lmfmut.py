"""Single-fault mutants of valid WN-LMF documents (used by C20).

A valid document is the ``xmlw.El`` tree of a generated resource.  A *mutation*
is plain JSON ``{'class': str, 'kind': str | None, 'pos': int, 'arg': int}``:
``class`` names the fault, ``kind`` optionally narrows the candidate sites (so a
generator can hit rare sites on purpose), ``pos`` selects the site modulo the
number of candidates and ``arg`` selects a variant of the fault.

``build(resource, style, mutation)`` returns the bytes of the mutant and a
description of what was done.  Nothing here calls ``wn``.
"""

from __future__ import annotations

from dataclasses import dataclass, field
from typing import Any, Optional

from . import xmlw
from .xmlw import El

# element tables of the WN-LMF DTDs (1.2 and 1.3 add attributes only)
ELEMS_1_0 = ('LexicalResource', 'Lexicon', 'LexicalEntry', 'Lemma', 'Form', 'Tag', 'Sense',
             'SenseRelation', 'Example', 'Count', 'SyntacticBehaviour', 'Synset',
             'Definition', 'ILIDefinition', 'SynsetRelation')
V11_ONLY = ('Requires', 'Extends', 'Pronunciation', 'LexiconExtension',
            'ExternalLexicalEntry', 'ExternalLemma', 'ExternalForm', 'ExternalSense',
            'ExternalSynset')
ALL_ELEMS = set(ELEMS_1_0) | set(V11_ONLY)

# "required identifying attribute": #REQUIRED attributes that say which thing
# the element is or which thing it points at (WN-LMF DTDs)
IDENTIFYING = {
    'Lexicon': ('id', 'version'),
    'LexiconExtension': ('id', 'version'),
    'Requires': ('id', 'version'),
    'Extends': ('id', 'version'),
    'LexicalEntry': ('id',),
    'ExternalLexicalEntry': ('id',),
    'ExternalForm': ('id',),
    'Lemma': ('writtenForm',),       # the written form is what identifies a (non-external) form
    'Form': ('writtenForm',),
    'Sense': ('id', 'synset'),
    'ExternalSense': ('id',),
    'Synset': ('id',),
    'ExternalSynset': ('id',),
    'SenseRelation': ('target',),
    'SynsetRelation': ('target',),
}
SINGLE_VALUED = ('Lemma', 'ILIDefinition', 'Extends', 'ExternalLemma')
SCANNED = {('Lexicon', 'id'), ('Lexicon', 'version'), ('Lexicon', 'label'),
           ('LexiconExtension', 'id'), ('LexiconExtension', 'version'),
           ('LexiconExtension', 'label'), ('Extends', 'id'), ('Extends', 'version')}

BODY_CLASSES = ('attr-removed', 'elem-renamed', 'v11-elem-in-v10', 'doctype-downgrade',
                'child-duplicated', 'close-tag-removed', 'end-tag-mismatch',
                'attr-duplicated', 'truncated', 'misnested')
# 'misnested': a known element in a place where no version of the DTD has it (a lexicon inside a
# lexicon, the whole resource inside a second root element, Extends inside an entry).  The
# property does not list this fault: a reader may reject the file or accept it, but whatever
# load() accepts scan_lexicons() has to agree with (EITHER_WAY)
EITHER_WAY = ('misnested',)
NOT_WELLFORMED = ('close-tag-removed', 'end-tag-mismatch', 'attr-duplicated', 'truncated')

# header faults the property says must be rejected ...
HEADER_FAULTS = (
    'no-xmldecl',               # lacks the XML declaration
    'no-doctype',               # lacks the DOCTYPE
    'doctype-unsupported',      # DOCTYPE of a WN-LMF version that is not supported
    'doctype-other-dtd',        # DOCTYPE of something that is not WN-LMF
    'leading-blank-line',       # declaration not at the start: not well-formed
    'leading-space',            # same
    'doctype-not-utf8',         # a byte that is not UTF-8 in the DOCTYPE line: not well-formed
    'quotes-mismatched',        # a literal opened with one quote character and closed with the other
)
# ... and header spellings about which the property only says that is_lmf and
# load must agree
HEADER_VARIANTS = (
    'bom', 'one-line', 'encoding-latin1', 'encoding-ascii', 'encoding-utf16-declared',
    'encoding-lowercase', 'standalone', 'crlf', 'trailing-space', 'blank-line-between',
    'comment-between', 'xml-version-1.1', 'doctype-internal-subset', 'doctype-extra-space',
    'doctype-public', 'decl-extra-space',
)
UNSUPPORTED_VERSIONS = ('1.4', '0.9', '2.0', '1', '1.00', '1.10')
UNKNOWN_NAMES = ('Foo', '{tag}X', '{lower}', '{upper}', 'x{tag}', '{tag}-2', 'Lexicn')


class MutationError(Exception):
    """The mutation cannot be applied to this document (no candidate site)."""


@dataclass
class Built:
    data: bytes
    cls: str
    kind: str
    what: str
    header: str                    # 'intact' | 'fault' | 'variant'
    wellformed: Optional[bool]     # expectation for an XML parser; None = not claimed
    info: dict = field(default_factory=dict)


# ---------------------------------------------------------------------------
# serialiser with hooks

class MutSer(xmlw._Ser):
    """xmlw's serialiser plus per-element marks:

    marks[id(el)] = {'open': name, 'close': name | None, 'dup_attr': k}
    ``literal_ws``: TAB/LF/CR in the attributes scan_lexicons reads are written
    literally (an XML parser normalises each to a space) instead of as
    character references.
    """

    def __init__(self, style, marks=None, literal_ws=False):
        super().__init__(style)
        self.marks = marks or {}
        self.literal_ws = literal_ws

    def attrs_of(self, el: El, pad: str) -> str:
        m = self.marks.get(id(el), {})
        attrs = list(el.attrs)
        order = self.s['attr_order']
        if order == 'reversed':
            attrs = list(reversed(attrs))
        elif order == 'sorted':
            attrs = sorted(attrs, key=lambda kv: kv[0])
        if 'dup_attr' in m and attrs:
            k = m['dup_attr'] % len(attrs)
            attrs.insert(k + 1 + (m.get('dup_gap', 0) % (len(attrs) - k)), attrs[k])
        parts = []
        for k, v in attrs:
            q = self.quote_for(v)
            if self.literal_ws and (el.tag, k) in SCANNED:
                body = _esc_keep_ws(v, q, self.s['escape'])
            else:
                body = xmlw._esc_attr(v, q, self.s['escape'])
            parts.append(f'{k}={q}{body}{q}')
        sep = ('\n' + pad + '    ') if self.s['attr_newlines'] else ' '
        return ''.join(sep + p for p in parts)

    def emit(self, el: El, level: int) -> None:
        m = self.marks.get(id(el), {})
        otag = m.get('open', el.tag)
        ctag = m.get('close', otag)
        ind = self.s['indent']
        pad = ' ' * (ind * level) if ind else ''
        nl = '\n' if ind or level <= 1 else ''
        self.n_el = getattr(self, 'n_el', 0) + 1
        if self.s['comments'] and self.n_el % 4 == 1 and level >= 1:
            self.out.append(f'{pad}<!-- c{self.n_el}: id="x" & <not a tag> -->{nl}')
        if self.s['comments'] and self.n_el % 8 == 5 and level >= 1:
            # a processing instruction may hold anything but '?>' - tag look-alikes too
            # ... the opener of a comment or of a CDATA section as well (every other one)
            opener = ('<!-- ', '<![CDATA[ ')[self.n_el // 16 % 2] if self.n_el % 16 >= 8 else ''
            self.out.append(f'{pad}<?wnv p{self.n_el} {opener}<Lexicon id="ghost" version="9"> ?>{nl}')
        if self.s['blank_lines'] and self.n_el % 5 == 2 and nl:
            self.out.append('\n')
        a = self.attrs_of(el, pad)
        close = f'</{ctag}>' if ctag is not None else ''
        if not el.children and el.text is None:
            mode = self.s['empty']
            if mode == 'short':
                self.out.append(f'{pad}<{otag}{a}/>{nl}')
            elif mode == 'spaced':
                self.out.append(f'{pad}<{otag}{a} />{nl}')
            else:
                self.out.append(f'{pad}<{otag}{a}>{close}{nl}')
            return
        if el.text is not None and not el.children:
            self.out.append(f'{pad}<{otag}{a}>{self.text(el.text, self.n_el)}{close}{nl}')
            return
        self.out.append(f'{pad}<{otag}{a}>{nl}')
        for c in el.children:
            self.emit(c, level + 1)
        if close:
            self.out.append(f'{pad}{close}{nl}')


def _esc_keep_ws(value: str, q: str, mode: str) -> str:
    out, run = [], []
    for c in value:
        if c in '\t\n\r':
            out.append(xmlw._esc_attr(''.join(run), q, mode))
            out.append(c)
            run = []
        else:
            run.append(c)
    out.append(xmlw._esc_attr(''.join(run), q, mode))
    return ''.join(out)


def serialise(root: El, style, marks=None, literal_ws=False) -> str:
    ser = MutSer(style or {}, marks, literal_ws)
    ser.emit(root, 0)
    return ''.join(ser.out)


def valid_bytes(resource: dict, style, literal_ws=False) -> bytes:
    """The unmutated document (identical to xmlw.dumps unless literal_ws)."""
    root = xmlw.to_tree(resource)
    return (xmlw.header(resource['lmf_version'], style or {})
            + serialise(root, style, None, literal_ws)).encode('utf-8')


# ---------------------------------------------------------------------------
# candidate sites

def walk(root: El):
    """(element, parent, index in parent) in document order."""
    stack = [(root, None, 0)]
    while stack:
        el, parent, i = stack.pop()
        yield el, parent, i
        for j in range(len(el.children) - 1, -1, -1):
            stack.append((el.children[j], el, j))


def _has_close_tag(el: El) -> bool:
    return bool(el.children) or el.text is not None


def _depth_kind(el: El, parent: Optional[El]) -> str:
    if parent is None:
        return 'root'
    if el.tag in ('Lexicon', 'LexiconExtension'):
        return 'lexicon'
    return 'inner'


def sites(cls: str, root: El, version: str) -> list[tuple[str, Any]]:
    """[(kind, handle)] in document order for a tree-level mutation class."""
    out: list[tuple[str, Any]] = []
    if cls == 'attr-removed':
        # the reader validates the children of a LexiconExtension on a path of its own, so
        # sites inside one are kinds of their own ("~ext")
        in_ext = {id(d) for x, _p, _i in walk(root) if x.tag == 'LexiconExtension'
                  for d, _q, _j in walk(x)}
        for el, _p, _i in walk(root):
            for a in IDENTIFYING.get(el.tag, ()):
                if any(k == a for k, _v in el.attrs):
                    ext = '~ext' if id(el) in in_ext and el.tag != 'LexiconExtension' else ''
                    out.append((f'{el.tag}@{a}{ext}', (el, a)))
            if el.tag in ('Extends', 'Requires'):      # both identifying attributes at once
                out.append((f'{el.tag}@id+version', (el, ('id', 'version'))))
    elif cls == 'elem-renamed':
        for el, p, _i in walk(root):
            out.append((el.tag, (el, p)))
    elif cls == 'child-duplicated':
        for el, p, i in walk(root):
            if el.tag in SINGLE_VALUED and p is not None:
                out.append((el.tag, (el, p, i)))
    elif cls in ('close-tag-removed', 'end-tag-mismatch'):
        for el, p, _i in walk(root):
            if _has_close_tag(el):
                out.append((_depth_kind(el, p), (el, p)))
    elif cls == 'attr-duplicated':
        for el, _p, _i in walk(root):
            if el.attrs:
                scanned = any((el.tag, k) in SCANNED for k, _v in el.attrs)
                out.append(('scanned-element' if scanned else 'other-element', el))
    elif cls == 'misnested':
        lexs = [(i, c) for i, c in enumerate(root.children)
                if c.tag in ('Lexicon', 'LexiconExtension')]
        for n, (i, lx) in enumerate(lexs):
            if n > 0:
                out.append((f'{lx.tag}-in-{lexs[n - 1][1].tag}', ('into-previous', root, i)))
            kids = [c for c in lx.children if c.tag in ('LexicalEntry', 'ExternalLexicalEntry',
                                                        'Synset', 'ExternalSynset')]
            if kids:
                out.append((f'{lx.tag}-in-{kids[0].tag}', ('into-child', root, i, kids[0])))
            ext = [c for c in lx.children if c.tag == 'Extends']
            if ext and kids:
                out.append(('Extends-in-' + kids[0].tag, ('move', lx, ext[0], kids[0])))
        if lexs:
            out.append(('LexicalResource-in-LexicalResource', ('wrap', root)))
    elif cls == 'v11-elem-in-v10':
        if version != '1.0':
            return []
        lexs = [c for c in root.children if c.tag == 'Lexicon']
        for lx in lexs:
            attrs = dict(lx.attrs)
            out.append(('Requires', (lx, 0, El('Requires', [('id', 'dep'), ('version', '1')]))))
            out.append(('Extends', (lx, 0, El('Extends', [('id', 'base'), ('version', '1')]))))
            out.append(('ExternalLexicalEntry',
                        (lx, 0, El('ExternalLexicalEntry', [('id', attrs['id'] + '-xe')]))))
            out.append(('ExternalSynset',
                        (lx, len(lx.children), El('ExternalSynset', [('id', attrs['id'] + '-xss')]))))
            for el, _p, _i in walk(lx):
                if el.tag in ('Lemma', 'Form'):
                    out.append(('Pronunciation',
                                (el, 0, El('Pronunciation', [('variety', 'x')], text='pron'))))
                elif el.tag == 'LexicalEntry':
                    out.append(('ExternalLemma', (el, 0, El('ExternalLemma', []))))
                    out.append(('ExternalForm', (el, 1, El('ExternalForm', [('id', 'xf')]))))
                    out.append(('ExternalSense',
                                (el, len(el.children), El('ExternalSense', [('id', 'xs')]))))
        if lexs:
            a0 = dict(lexs[0].attrs)
            ext = El('LexiconExtension',
                     [('id', a0['id'] + '-ext'), ('label', 'x'), ('language', 'en'),
                      ('email', 'e'), ('license', 'l'), ('version', '1')],
                     [El('Extends', [('id', a0['id']), ('version', a0['version'])])])
            out.append(('LexiconExtension', (root, len(root.children), ext)))
    else:
        raise MutationError(f'not a tree-level class: {cls}')
    return out


def has_v11_only(root: El) -> bool:
    return any(el.tag in V11_ONLY for el, _p, _i in walk(root))


def available(root: El, version: str) -> dict[str, list[str]]:
    """{body class: sorted kinds available} for a document (generator use)."""
    out = {}
    for cls in BODY_CLASSES:
        if cls == 'truncated':
            out[cls] = ['']
        elif cls == 'doctype-downgrade':
            if version != '1.0' and has_v11_only(root):
                out[cls] = [version]
        else:
            kinds = sorted({k for k, _h in sites(cls, root, version)})
            if kinds:
                out[cls] = kinds
    return out


def count_sites(cls: str, resource: dict, style=None) -> int:
    """Number of positions of a body class in a document (enumeration use)."""
    root = xmlw.to_tree(resource)
    v = resource['lmf_version']
    if cls == 'truncated':
        lo, hi = _cut_range(valid_bytes(resource, style), resource, style)
        return hi - lo + 1
    if cls == 'doctype-downgrade':
        return 1 if v != '1.0' and has_v11_only(root) else 0
    return len(sites(cls, root, v))


# ---------------------------------------------------------------------------
# building

def _unknown_name(tag: str, arg: int) -> str:
    for k in range(len(UNKNOWN_NAMES)):
        t = UNKNOWN_NAMES[(arg + k) % len(UNKNOWN_NAMES)]
        name = t.format(tag=tag, lower=tag.lower(), upper=tag.upper())
        if name not in ALL_ELEMS and name != tag:
            return name
    raise MutationError('no unknown name')  # pragma: no cover


def _pick(cands: list, kind: Optional[str], pos: int):
    if kind:
        narrowed = [c for c in cands if c[0] == kind]
        if narrowed:
            cands = narrowed
    if not cands:
        raise MutationError('no candidate site')
    return cands[pos % len(cands)]


def _clone(el: El) -> El:
    return El(el.tag, list(el.attrs), [_clone(c) for c in el.children], el.text)


def _cut_range(data: bytes, resource: dict, style) -> tuple[int, int]:
    """Byte offsets k such that data[:k] keeps the two header lines whole and is
    certainly not well-formed: from the end of the header up to (and including)
    the offset that drops only the final '>' of the root's closing tag."""
    hlen = len(xmlw.header(resource['lmf_version'], style or {}).encode('utf-8'))
    last = data.rstrip().rfind(b'>')
    return hlen, last


def build(resource: dict, style, mutation: dict, literal_ws: bool = False) -> Built:
    cls = mutation['class']
    kind = mutation.get('kind')
    pos = int(mutation.get('pos', 0))
    arg = int(mutation.get('arg', 0))
    version = resource['lmf_version']
    style = style or {}
    root = xmlw.to_tree(resource)
    hdr = xmlw.header(version, style)

    if cls in HEADER_FAULTS or cls in HEADER_VARIANTS:
        body = serialise(root, style, None, literal_ws).encode('utf-8')
        h, what, wf = _header(cls, hdr, version, arg)
        return Built(h + body, cls, '', what,
                     'fault' if cls in HEADER_FAULTS else 'variant', wf)

    marks: dict = {}
    b = Built(b'', cls, '', '', 'intact', cls not in NOT_WELLFORMED)

    if cls == 'truncated':
        data = (hdr + serialise(root, style, None, literal_ws)).encode('utf-8')
        lo, hi = _cut_range(data, resource, style)
        k = lo + pos % (hi - lo + 1)
        b.data = data[:k]
        b.what = f'file cut after byte {k} of {len(data)}'
        # does the cut fall before the end of the first lexicon's start tag?
        return b

    if cls == 'doctype-downgrade':
        if version == '1.0' or not has_v11_only(root):
            raise MutationError('document has no 1.1-only element')
        h = xmlw.header('1.0', style)
        b.data = (h + serialise(root, style, None, literal_ws)).encode('utf-8')
        b.kind = version
        b.what = f'DOCTYPE of WN-LMF 1.0 on a {version} document with 1.1-only elements'
        return b

    cands = sites(cls, root, version)
    k, handle = _pick(cands, kind, pos)
    b.kind = k
    if cls == 'misnested':
        how = handle[0]
        if how == 'into-previous':
            _h, r, i = handle
            lx = r.children.pop(i)
            r.children[i - 1].children.append(lx)
            b.what = f'<{lx.tag}> moved to the end of the preceding <{r.children[i - 1].tag}>'
        elif how == 'into-child':
            _h, r, i, kid = handle
            # the *following* lexicons (if any) stay where they are; this one goes into the
            # first entry/synset of its predecessor or, for the first lexicon, nowhere else:
            # put a copy of the lexicon inside its own first child instead of moving it
            lx = r.children[i]
            inner = _clone(lx)
            kid.children.append(inner)
            b.what = f'a copy of <{lx.tag}> nested inside its first <{kid.tag}>'
        elif how == 'move':
            _h, lx, ext, kid = handle
            lx.children.remove(ext)
            kid.children.insert(0, ext)
            b.what = f'<Extends> moved into <{kid.tag}>'
        else:
            r = handle[1]
            inner = El('LexicalResource', list(r.attrs), list(r.children))
            r.children = [inner]
            b.what = 'the content wrapped in a second <LexicalResource>'
    elif cls == 'attr-removed':
        el, a = handle
        gone = a if isinstance(a, tuple) else (a,)
        el.attrs = [(n, v) for n, v in el.attrs if n not in gone]
        b.what = f'{"+".join(gone)} removed from <{el.tag}>'
    elif cls == 'elem-renamed':
        el, parent = handle
        name = _unknown_name(el.tag, arg)
        marks[id(el)] = {'open': name}
        b.what = f'<{el.tag}> renamed to <{name}>'
    elif cls == 'child-duplicated':
        el, parent, i = handle
        at = i + 1 if arg % 2 == 0 else len(parent.children)
        parent.children.insert(at, _clone(el))
        b.what = f'<{el.tag}> repeated in <{parent.tag}> at child {at}'
        if arg % 3 == 2:
            # ... and the first occurrence is a bare element (no attributes, no content): a
            # reader that keeps "the child seen so far" must still notice the repetition
            el.attrs = []
            el.children = []
            el.text = None
            b.what += ', the first one without attributes'
    elif cls == 'close-tag-removed':
        el, _p = handle
        marks[id(el)] = {'close': None}
        b.what = f'closing tag of <{el.tag}> removed'
    elif cls == 'end-tag-mismatch':
        el, _p = handle
        other = [n for n in ('Sense', 'Synset', 'Foo', 'Lexicon') if n != el.tag][arg % 3]
        marks[id(el)] = {'close': other}
        b.what = f'<{el.tag}> closed by </{other}>'
    elif cls == 'attr-duplicated':
        el = handle
        marks[id(el)] = {'dup_attr': arg, 'dup_gap': arg // 7}
        b.what = f'an attribute of <{el.tag}> written twice'
    elif cls == 'v11-elem-in-v10':
        parent, at, new = handle
        parent.children.insert(min(at, len(parent.children)), new)
        b.what = f'<{new.tag}> (WN-LMF 1.1) placed in <{parent.tag}> of a 1.0 document'
    else:
        raise MutationError(f'unknown class {cls}')
    b.data = (hdr + serialise(root, style, marks, literal_ws)).encode('utf-8')
    return b


def _header(cls: str, hdr: str, version: str, arg: int):
    """(header bytes, description, well-formedness claim) for a header class."""
    decl, doctype = hdr.split('\n')[0], hdr.split('\n')[1]
    q = decl[decl.index('=') + 1]
    e = lambda s: s.encode('utf-8')  # noqa: E731
    if cls == 'no-xmldecl':
        return e(doctype + '\n'), 'XML declaration removed', True
    if cls == 'no-doctype':
        return e(decl + '\n'), 'DOCTYPE removed', True
    if cls == 'doctype-unsupported':
        v = UNSUPPORTED_VERSIONS[arg % len(UNSUPPORTED_VERSIONS)]
        return (e(decl + '\n' + doctype.replace(f'WN-LMF-{version}.dtd', f'WN-LMF-{v}.dtd') + '\n'),
                f'DOCTYPE of WN-LMF {v}', True)
    if cls == 'doctype-other-dtd':
        alts = (f'<!DOCTYPE LexicalResource SYSTEM {q}http://example.org/other.dtd{q}>',
                f'<!DOCTYPE LexicalResource SYSTEM {q}{q}>',
                f'<!DOCTYPE LexicalResource SYSTEM {q}WN-LMF.dtd{q}>')
        return e(decl + '\n' + alts[arg % len(alts)] + '\n'), 'DOCTYPE of another DTD', True
    if cls == 'leading-blank-line':
        return e('\n' + hdr), 'blank line before the XML declaration', False
    if cls == 'leading-space':
        return e(' ' + hdr), 'space before the XML declaration', False
    if cls == 'doctype-not-utf8':
        raw = e(doctype)
        cut = raw.index(b'schemas/') + 8
        bad = (b'\xff', b'\xc3', b'\xe2\x82')[arg % 3]
        return e(decl + '\n') + raw[:cut] + bad + raw[cut:] + b'\n', \
            'invalid UTF-8 byte in the DOCTYPE line', False
    if cls == 'quotes-mismatched':
        dtd = f'http://globalwordnet.github.io/schemas/WN-LMF-{version}.dtd'
        alts = (('<?xml version="1.0\' encoding=\'UTF-8"?>', doctype),
                ('<?xml version=\'1.0" encoding="UTF-8\'?>', doctype),
                (decl, f'<!DOCTYPE LexicalResource SYSTEM "{dtd}\'>'),
                (decl, f'<!DOCTYPE LexicalResource SYSTEM \'{dtd}">'))
        a, b = alts[arg % len(alts)]
        return e(a + '\n' + b + '\n'), 'literal closed with the other quote character', False
    # variants: nothing claimed except that is_lmf and load agree
    if cls == 'bom':
        return b'\xef\xbb\xbf' + e(hdr), 'UTF-8 byte order mark', None
    if cls == 'one-line':
        return e(decl + doctype + '\n'), 'declaration and DOCTYPE on one line', None
    if cls == 'encoding-latin1':
        return e(decl.replace('UTF-8', 'ISO-8859-1') + '\n' + doctype + '\n'), 'encoding ISO-8859-1', None
    if cls == 'encoding-ascii':
        return e(decl.replace('UTF-8', 'US-ASCII') + '\n' + doctype + '\n'), 'encoding US-ASCII', None
    if cls == 'encoding-utf16-declared':
        return e(decl.replace('UTF-8', 'UTF-16') + '\n' + doctype + '\n'), 'encoding UTF-16 declared', None
    if cls == 'encoding-lowercase':
        return e(decl.replace('UTF-8', 'utf-8') + '\n' + doctype + '\n'), 'encoding utf-8 (lower case)', None
    if cls == 'standalone':
        return (e(decl.replace('?>', f' standalone={q}no{q}?>') + '\n' + doctype + '\n'),
                'standalone pseudo-attribute', None)
    if cls == 'crlf':
        return e(decl + '\r\n' + doctype + '\r\n'), 'CRLF line ends in the header', None
    if cls == 'trailing-space':
        return e(decl + ' \t\n' + doctype + '  \n'), 'trailing blanks on the header lines', None
    if cls == 'blank-line-between':
        return e(decl + '\n\n' + doctype + '\n'), 'blank line between declaration and DOCTYPE', None
    if cls == 'comment-between':
        return e(decl + '\n<!-- c -->\n' + doctype + '\n'), 'comment line before the DOCTYPE', None
    if cls == 'xml-version-1.1':
        return e(decl.replace('1.0', '1.1', 1) + '\n' + doctype + '\n'), 'XML version 1.1', None
    if cls == 'doctype-internal-subset':
        return e(decl + '\n' + doctype[:-1] + ' []>\n'), 'DOCTYPE with an empty internal subset', None
    if cls == 'doctype-extra-space':
        return e(decl + '\n' + doctype.replace(' SYSTEM ', '  SYSTEM ') + '\n'), 'two blanks in the DOCTYPE', None
    if cls == 'doctype-public':
        return (e(decl + '\n' + doctype.replace(' SYSTEM ', f' PUBLIC {q}-//GWA//WN-LMF{q} ') + '\n'),
                'DOCTYPE with a PUBLIC identifier', None)
    if cls == 'decl-extra-space':
        return e(decl.replace('<?xml version', '<?xml  version') + '\n' + doctype + '\n'), \
            'two blanks in the XML declaration', None
    raise MutationError(f'unknown header class {cls}')
