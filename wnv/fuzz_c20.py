"""atheris (libFuzzer) driver for the byte-level half of C20.

    python -m wnv.fuzz_c20 --runs 15000 --corpus DIR --findings DIR [--dict F] [--seed N]

The campaign is bounded by a number of executions (deterministic for a given
seed and tree); ``--seconds`` is only a safety cap.

The target is ``wnv.checks.c20.check_bytes`` - the same oracle the harness
replays.  A discrepancy does not stop the campaign: the smallest input per
discrepancy kind is written to ``<findings>/<kind>.bin`` and fuzzing goes on.
Exit 3 if atheris cannot be imported (the check then records that fact).
"""

from __future__ import annotations

import argparse
import os
import re
import sys
from pathlib import Path


def main() -> int:
    ap = argparse.ArgumentParser()
    ap.add_argument('--runs', type=int, default=15000)
    ap.add_argument('--seconds', type=int, default=180)
    ap.add_argument('--corpus', required=True)
    ap.add_argument('--findings', required=True)
    ap.add_argument('--dict')
    ap.add_argument('--seed', type=int, default=1)
    ap.add_argument('--max-len', type=int, default=6000)
    args = ap.parse_args()

    deps = Path(__file__).resolve().parent.parent / '.deps'
    if deps.is_dir() and str(deps) not in sys.path:
        sys.path.append(str(deps))
    try:
        import atheris
    except Exception as exc:  # noqa: BLE001
        print(f'atheris unavailable: {exc}', file=sys.stderr)
        return 3

    from wnv import env
    with atheris.instrument_imports(include=['wn']):
        env.import_wn()
        import wn.lmf  # noqa: F401
        import wn._add  # noqa: F401
        import wn.project  # noqa: F401
    from wnv.checks import c20

    work = env.new_dir('fuzz')
    dbs = c20.DbKeep()
    findings = Path(args.findings)
    best: dict[str, int] = {}

    def target(data: bytes) -> None:
        for d in c20.check_bytes(data, work, dbs):
            if d.kind not in best or len(data) < best[d.kind]:
                best[d.kind] = len(data)
                slug = re.sub(r'[^A-Za-z0-9_.-]+', '_', d.kind)
                (findings / f'{slug}.bin').write_bytes(data)

    argv = [sys.argv[0], args.corpus, f'-runs={args.runs}',
            f'-max_total_time={args.seconds}', f'-seed={args.seed}',
            f'-max_len={args.max_len}', '-timeout=60', '-print_final_stats=1', '-verbosity=0']
    if args.dict:
        argv.append(f'-dict={args.dict}')
    atheris.Setup(argv, target)
    atheris.Fuzz()
    return 0


if __name__ == '__main__':
    sys.stdout.flush()
    code = main()
    sys.stdout.flush()
    sys.stderr.flush()
    os._exit(code)
