"""Property-based verification machinery for goodmami/wn (see /verif/DESIGN.md)."""
