"""Reference database: the *documented* semantics of wn's store and query
layer as plain Python over the document models (no SQL, no wn code).

Built from docs/guides/*.rst, the docstrings and the property texts:

* ``add`` skips a lexicon whose id:version is installed and an extension whose
  base is not installed (decided against the state *before* the call);
  ``remove`` removes a lexicon together with all (transitive) extensions;
* every stored item has an owner lexicon (the one whose document declared it)
  and attachments have a target entity that may belong to a base lexicon;
* listing queries return entities owned by the selected lexicons; navigation
  and relation traversal use ``scope``: the selected lexicons, or in default
  mode the entity's own lexicon + the lexicons it extends + its extensions;
* relations require relation owner and target owner in scope.

``expected(...)`` renders the same structure as ``observe.observe``; where the
implementation's order is not promised the expected value uses the special
nodes understood by ``canon.diff`` (__multiset__, __groups__, __oneof__).
"""

from __future__ import annotations

from typing import Any, Optional

from .observe import relkey

DEFAULT_MEMBER_RANK = 127
RAISES = {'__raises__': 'wn.Error'}


def clean_meta(m: Optional[dict]) -> dict:
    return {k: v for k, v in (m or {}).items() if v not in ('', None)}


class RLex:
    def __init__(self, doc: dict, order: int):
        self.doc = doc
        self.id = doc['id']
        self.version = doc['version']
        self.spec = f'{self.id}:{self.version}'
        self.order = order
        self.base: Optional['RLex'] = None
        self.entries: dict[str, 'REntry'] = {}
        self.senses: dict[str, 'RSense'] = {}
        self.synsets: dict[str, 'RSynset'] = {}


class REntry:
    def __init__(self, owner, id, pos, meta):
        self.owner, self.id, self.pos, self.meta = owner, id, pos, clean_meta(meta)
        self.forms: list['RForm'] = []

    @property
    def key(self):
        return f'{self.owner.spec}|{self.id}'


class RForm:
    def __init__(self, owner, entry, form, fid, script, rank):
        self.owner, self.entry = owner, entry
        self.form, self.id, self.script, self.rank = form, fid or None, script or None, rank
        self.tags: list = []     # (contributor RLex, tag, category)
        self.prons: list = []    # (contributor RLex, [value, variety, notation, phonemic, audio])


class RSynset:
    def __init__(self, owner, doc):
        self.owner, self.id = owner, doc['id']
        ili = doc.get('ili') or ''
        self.ili = ili if ili not in ('', 'in') else None
        self.proposed = ili == 'in'
        self.ili_def = doc.get('ili_definition')
        self.pos = doc.get('partOfSpeech') or None
        self.lexicalized = doc.get('lexicalized', True)
        self.lexfile = doc.get('lexfile') or None
        self.meta = clean_meta(doc.get('meta'))
        self.order = 0

    @property
    def key(self):
        return f'{self.owner.spec}|{self.id}'


class RSense:
    def __init__(self, owner, doc, entry, entry_rank, synset, synset_rank):
        self.owner, self.id = owner, doc['id']
        self.entry, self.entry_rank = entry, entry_rank
        self.synset, self.synset_rank = synset, synset_rank
        self.lexicalized = doc.get('lexicalized', True)
        self.meta = clean_meta(doc.get('meta'))
        self.adjposition = doc.get('adjposition') or None
        self.order = 0

    @property
    def key(self):
        return f'{self.owner.spec}|{self.id}'


class Rel:
    def __init__(self, owner, src, tgt, name, meta, order):
        self.owner, self.src, self.tgt, self.name = owner, src, tgt, name
        self.meta = clean_meta(meta)
        self.order = order

    @property
    def subtype(self):
        return self.meta.get('type')


class RefDB:
    def __init__(self):
        self.lexs: list[RLex] = []
        self.ilis: dict[str, dict] = {}      # shared ILI inventory (never shrinks)
        self._order = 0
        self._seq = 0
        # attachment tables
        self.counts: list = []           # (owner, sense, value, meta, seq)
        self.sense_examples: list = []   # (owner, sense, text, language, meta, seq)
        self.synset_examples: list = []
        self.definitions: list = []      # (owner, synset, text, language, source_sense, meta, seq)
        self.synset_rels: list[Rel] = []
        self.sense_rels: list[Rel] = []
        self.sense_synset_rels: list[Rel] = []
        self.frames: list = []           # (owner, frame text, id, [senses])

    # -- bookkeeping ----------------------------------------------------------
    def _next(self) -> int:
        self._seq += 1
        return self._seq

    def get(self, spec: str) -> Optional[RLex]:
        for lx in self.lexs:
            if lx.spec == spec:
                return lx
        return None

    def installed(self) -> list[str]:
        return [lx.spec for lx in self.lexs]

    # -- add / remove ---------------------------------------------------------
    def add_resource(self, res: dict) -> list[str]:
        """Apply the documented add semantics; returns the specs actually added."""
        before = set(self.installed())
        todo = []
        for doc in res['lexicons']:
            spec = f"{doc['id']}:{doc['version']}"
            if spec in before:
                continue
            ext = doc.get('extends')
            if ext and f"{ext['id']}:{ext['version']}" not in before:
                continue
            todo.append(doc)
        added = []
        for doc in todo:
            self._add_lexicon(doc)
            added.append(f"{doc['id']}:{doc['version']}")
        return added

    def _add_lexicon(self, doc: dict) -> None:
        self._order += 1
        L = RLex(doc, self._order)
        ext = doc.get('extends')
        if ext:
            L.base = self.get(f"{ext['id']}:{ext['version']}")
            assert L.base is not None
        self.lexs.append(L)

        def entry_of(eid, external):
            return (L.base.entries[eid] if external else L.entries[eid])

        # synsets
        for ss in doc.get('synsets', []):
            if ss.get('external'):
                continue
            r = RSynset(L, ss)
            r.order = self._next()
            L.synsets[r.id] = r
            if r.ili is not None and r.ili not in self.ilis:
                d = ss.get('ili_definition')
                self.ilis[r.ili] = {'status': 'presupposed',
                                    'definition': (d or {}).get('text') or None,
                                    'meta': clean_meta((d or {}).get('meta'))}
        ext_ss = {ss['id'] for ss in doc.get('synsets', []) if ss.get('external')}
        ext_sense = {s['id'] for e in doc.get('entries', []) for s in e.get('senses', [])
                     if s.get('external')}

        def synset_of(ssid):
            return L.base.synsets[ssid] if ssid in ext_ss else L.synsets[ssid]

        def sense_of(sid):
            return L.base.senses[sid] if sid in ext_sense else L.senses[sid]

        # entries and forms
        for e in doc.get('entries', []):
            if e.get('external'):
                continue
            lem = e['lemma']
            r = REntry(L, e['id'], lem['partOfSpeech'], e.get('meta'))
            L.entries[r.id] = r
        for e in doc.get('entries', []):
            ent = entry_of(e['id'], e.get('external'))
            lem = e.get('lemma')
            if lem is not None:
                if lem.get('external'):
                    f0 = next(f for f in ent.forms if f.rank == 0)
                else:
                    f0 = RForm(L, ent, lem['writtenForm'], None, lem.get('script'), 0)
                    ent.forms.append(f0)
                self._form_children(L, f0, lem)
            for i, f in enumerate(e.get('forms', []), 1):
                if f.get('external'):
                    rf = next(x for x in ent.forms if x.id == f['id'])
                else:
                    rf = RForm(L, ent, f['writtenForm'], f.get('id'), f.get('script'), i)
                    ent.forms.append(rf)
                self._form_children(L, rf, f)
        # senses
        ssrank = {}
        for ss in doc.get('synsets', []):
            if not ss.get('external'):
                for i, sid in enumerate(ss.get('members', [])):
                    ssrank[sid] = i
        for e in doc.get('entries', []):
            ent = entry_of(e['id'], e.get('external'))
            local = [s for s in e.get('senses', []) if not s.get('external')]
            for i, s in enumerate(local):
                r = RSense(L, s, ent, i, synset_of(s['synset']),
                           ssrank.get(s['id'], DEFAULT_MEMBER_RANK))
                r.order = self._next()
                L.senses[r.id] = r
        # sense attachments
        all_sense_ids = {s['id'] for e in doc.get('entries', []) for s in e.get('senses', [])}
        for e in doc.get('entries', []):
            for s in e.get('senses', []):
                rs = sense_of(s['id'])
                for c in s.get('counts', []):
                    self.counts.append((L, rs, c['value'], clean_meta(c.get('meta')),
                                        self._next()))
                for x in s.get('examples', []):
                    self.sense_examples.append((L, rs, x.get('text', ''),
                                                x.get('language') or None,
                                                clean_meta(x.get('meta')), self._next()))
                for rel in s.get('relations', []):
                    t = rel['target']
                    if t in all_sense_ids:
                        self.sense_rels.append(Rel(L, rs, sense_of(t), rel['relType'],
                                                   rel.get('meta'), self._next()))
                    else:
                        self.sense_synset_rels.append(Rel(L, rs, synset_of(t), rel['relType'],
                                                          rel.get('meta'), self._next()))
        # synset attachments
        for ss in doc.get('synsets', []):
            rss = synset_of(ss['id'])
            for d in ss.get('definitions', []):
                src = sense_of(d['sourceSense']) if d.get('sourceSense') else None
                self.definitions.append((L, rss, d.get('text', ''), d.get('language') or None,
                                         src, clean_meta(d.get('meta')), self._next()))
            for x in ss.get('examples', []):
                self.synset_examples.append((L, rss, x.get('text', ''),
                                             x.get('language') or None,
                                             clean_meta(x.get('meta')), self._next()))
            for rel in ss.get('relations', []):
                self.synset_rels.append(Rel(L, rss, synset_of(rel['target']), rel['relType'],
                                            rel.get('meta'), self._next()))
        # frames: lexicon level (1.1+, senses via subcat) and entry level (1.0)
        byframe: dict[str, dict] = {}
        byid = {}
        for fr in doc.get('frames', []):
            rec = {'id': fr.get('id') or None, 'senses': [sense_of(s) for s in fr.get('senses', [])]}
            byframe[fr['subcategorizationFrame']] = rec
            if rec['id']:
                byid[rec['id']] = rec
        for e in doc.get('entries', []):
            for s in e.get('senses', []):
                if s.get('external'):
                    continue
                for sbid in s.get('subcat', []):
                    byid[sbid]['senses'].append(sense_of(s['id']))
            if e.get('external') or not e.get('frames'):
                continue
            all_s = [sense_of(s['id']) for s in e.get('senses', [])]
            for fr in e['frames']:
                rec = byframe.setdefault(fr['subcategorizationFrame'], {'id': None, 'senses': []})
                rec['senses'].extend([sense_of(x) for x in fr['senses']]
                                     if fr.get('senses') else all_s)
        for text, rec in byframe.items():
            self.frames.append((L, text, rec['id'], rec['senses']))

    def _form_children(self, L, rf: RForm, d: dict) -> None:
        for t in d.get('tags', []):
            rf.tags.append((L, t.get('text', ''), t['category']))
        for p in d.get('pronunciations', []):
            rf.prons.append((L, [p.get('text', ''), p.get('variety') or None,
                                 p.get('notation') or None, bool(p.get('phonemic', True)),
                                 p.get('audio') or None]))

    def extensions_of(self, L: RLex, depth: int = -1) -> list[RLex]:
        out, frontier, d = [], [L], 0
        while frontier and (depth < 0 or d < depth):
            nxt = [x for x in self.lexs if x.base in frontier and x not in out]
            out.extend(nxt)
            frontier = nxt
            d += 1
        return out

    def bases_of(self, L: RLex) -> list[RLex]:
        out = []
        while L.base is not None:
            out.append(L.base)
            L = L.base
        return out

    def remove(self, specs: list[str]) -> list[str]:
        """Remove the named lexicons and, transitively, their extensions."""
        gone: list[RLex] = []
        for spec in specs:
            L = self.get(spec)
            if L is None or L in gone:
                continue
            gone.extend([x for x in self.extensions_of(L) if x not in gone])
            gone.append(L)
        gs = set(gone)
        self.lexs = [x for x in self.lexs if x not in gs]

        def alive_ent(x):
            return x.owner not in gs

        self.counts = [r for r in self.counts if r[0] not in gs and alive_ent(r[1])]
        self.sense_examples = [r for r in self.sense_examples
                               if r[0] not in gs and alive_ent(r[1])]
        self.synset_examples = [r for r in self.synset_examples
                                if r[0] not in gs and alive_ent(r[1])]
        self.definitions = [
            (o, ss, t, lg, (src if src is not None and alive_ent(src) else None), m, q)
            for (o, ss, t, lg, src, m, q) in self.definitions
            if o not in gs and alive_ent(ss)]
        for name in ('synset_rels', 'sense_rels', 'sense_synset_rels'):
            setattr(self, name, [r for r in getattr(self, name)
                                 if r.owner not in gs and alive_ent(r.src) and alive_ent(r.tgt)])
        self.frames = [(o, t, i, [s for s in ss if alive_ent(s)])
                       for (o, t, i, ss) in self.frames if o not in gs]
        for L in self.lexs:
            for e in L.entries.values():
                e.forms = [f for f in e.forms if f.owner not in gs]
                for f in e.forms:
                    f.tags = [t for t in f.tags if t[0] not in gs]
                    f.prons = [p for p in f.prons if p[0] not in gs]
        return [x.spec for x in gone]

    # -- scopes -----------------------------------------------------------------
    def family(self, L: RLex) -> set:
        return {L} | set(self.bases_of(L)) | set(self.extensions_of(L))

    # -- rendering ---------------------------------------------------------------
    def view(self, specs: Optional[list[str]], expand_specs: Optional[list[str]] = None,
             default_mode: Optional[bool] = None) -> 'View':
        """A Wordnet-like view.  specs=None -> unrestricted default mode."""
        if specs is None:
            sel = list(self.lexs)
            dm = True if default_mode is None else default_mode
        else:
            sel = [self.get(s) for s in specs]
            assert all(x is not None for x in sel), specs
            dm = False if default_mode is None else default_mode
        if expand_specs is None:
            exp = list(self.lexs) if dm else \
                [p for L in sel for p in self.requires_installed(L)]
        else:
            exp = [self.get(s) for s in expand_specs]
        return View(self, sel, dm, [e for e in exp if e is not None])

    def requires_installed(self, L: RLex) -> list[RLex]:
        out = []
        for dep in L.doc.get('requires', []):
            p = self.get(f"{dep['id']}:{dep['version']}")
            if p is not None:
                out.append(p)
        return out


class View:
    def __init__(self, db: RefDB, selected: list[RLex], default_mode: bool,
                 expand: list[RLex]):
        self.db = db
        self.sel = selected
        self.S = set(selected)
        self.default_mode = default_mode
        self.expand = expand
        self.E = set(expand)

    def scope(self, owner: RLex) -> set:
        return self.db.family(owner) if self.default_mode else self.S

    # entities ---------------------------------------------------------------
    def entries(self):
        return [e for L in self.sel for e in L.entries.values()]

    def senses(self):
        return [s for L in self.sel for s in L.senses.values()]

    def synsets(self):
        return [s for L in self.sel for s in L.synsets.values()]

    def nav(self, ent):
        """Key of an entity reached by navigation (word()/synset()), or the raise record."""
        return ent.key if ent.owner in self.S else dict(RAISES)

    def entry_senses(self, e: REntry) -> list[list[RSense]]:
        """Senses of an entry in scope, grouped by equal rank (groups in rank order)."""
        sc = self.scope(e.owner)
        ss = [s for L in self.db.lexs if L in sc for s in L.senses.values() if s.entry is e]
        return _groups(ss, lambda s: s.entry_rank)

    def synset_senses(self, ss: RSynset) -> list[list[RSense]]:
        sc = self.scope(ss.owner)
        xs = [s for L in self.db.lexs if L in sc for s in L.senses.values() if s.synset is ss]
        return _groups(xs, lambda s: s.synset_rank)

    # observation ---------------------------------------------------------------
    def lexicon_obs(self, L: RLex) -> dict:
        d = L.doc
        req = {}
        for dep in d.get('requires', []):
            spec = f"{dep['id']}:{dep['version']}"
            req[spec] = spec if self.db.get(spec) is not None else None
        return {
            'id': L.id, 'version': L.version, 'label': d['label'], 'language': d['language'],
            'email': d['email'], 'license': d['license'], 'url': d.get('url') or None,
            'citation': d.get('citation') or None, 'logo': d.get('logo') or None,
            'meta': clean_meta(d.get('meta')), 'requires': req,
            'extends': L.base.spec if L.base else None,
            'extensions': sorted(x.spec for x in self.db.extensions_of(L, 1)),
            'extensions_all': sorted(x.spec for x in self.db.extensions_of(L)),
            'modified': False,
        }

    def form_obs(self, f: RForm, sc: set) -> dict:
        return {'form': f.form, 'id': f.id, 'script': f.script,
                'tags': {'__multiset__': [[t, c] for (o, t, c) in f.tags if o in sc]},
                'pronunciations': {'__multiset__': [p for (o, p) in f.prons if o in sc]}}

    def word_obs(self, e: REntry, deep: bool = True) -> dict:
        sc = self.scope(e.owner)
        # a form an extension adds to the entry is the extension's: visible with it in scope
        forms = sorted((f for f in e.forms if f.owner in sc), key=lambda f: f.rank)
        groups = self.entry_senses(e)
        flat = [s for g in groups for s in g]
        o = {'id': e.id, 'pos': e.pos, 'lexicon': e.owner.spec,
             'lemma': self.form_obs(forms[0], sc),
             'forms': [self.form_obs(f, sc) for f in forms],
             'senses': {'__groups__': [[s.key for s in g] for g in groups]},
             'meta': e.meta}
        if deep:
            if any(s.synset.owner not in self.S for s in flat):
                o['synsets'] = dict(RAISES)
            else:
                o['synsets'] = {'__groups__': [[s.synset.key for s in g] for g in groups]}
        return o

    def _rels(self, table, ent, names=None):
        sc = self.scope(ent.owner)
        return [r for r in table if r.src is ent and r.owner in sc and r.tgt.owner in sc
                and (names is None or r.name in names)]

    def _relmap(self, rels: list[Rel]) -> dict:
        out: dict[str, dict] = {}
        for r in rels:
            k = relkey(r.name, r.src.id, r.tgt.id, r.owner.spec, r.subtype)
            rec = out.setdefault(k, {'name': r.name, 'source': r.src.id, 'target': r.tgt.id,
                                     'lexicon': r.owner.spec, 'subtype': r.subtype,
                                     'meta': {'__oneof__': []}, 'target_key': {'__oneof__': []}})
            if r.meta not in rec['meta']['__oneof__']:
                rec['meta']['__oneof__'].append(r.meta)
            if r.tgt.key not in rec['target_key']['__oneof__']:
                rec['target_key']['__oneof__'].append(r.tgt.key)
        return out

    @staticmethod
    def _by_name(pairs: list) -> dict:
        """{name: multiset of unique target keys} from (name, key) pairs."""
        out: dict[str, list] = {}
        for name, key in pairs:
            lst = out.setdefault(name, [])
            if key not in lst:
                lst.append(key)
        return {k: {'__multiset__': v} for k, v in out.items()}

    @staticmethod
    def _uniq(keys: list) -> dict:
        out = []
        for k in keys:
            if k not in out:
                out.append(k)
        return {'__multiset__': out}

    def sense_obs(self, s: RSense, deep: bool = True) -> dict:
        db = self.db
        sc = self.scope(s.owner)
        o = {
            'id': s.id, 'lexicon': s.owner.spec,
            'word': self.nav(s.entry), 'synset': self.nav(s.synset),
            'examples': {'__multiset__': [t for (ow, sn, t, lg, m, q) in db.sense_examples
                                          if sn is s and ow in sc]},
            'counts': {'__multiset__': [[v, m] for (ow, sn, v, m, q) in db.counts
                                        if sn is s and ow in sc]},
            'frames': sorted(t for (ow, t, i, ss) in db.frames if ow in sc
                             for x in ss if x is s),
            'adjposition': s.adjposition, 'lexicalized': bool(s.lexicalized), 'meta': s.meta,
        }
        if deep:
            rels = self._rels(db.sense_rels, s)
            o['relation_map'] = self._relmap(rels)
            o['relations'] = self._by_name([(r.name, r.tgt.key) for r in rels])
            o['get_related'] = self._uniq([r.tgt.key for r in rels])
            srels = self._rels(db.sense_synset_rels, s)
            o['related_synsets'] = self._uniq([r.tgt.key for r in srels])
            o['related_synsets_by_type'] = self._by_name([(r.name, r.tgt.key) for r in srels])
        return o

    def ili_obs(self, ss: RSynset):
        if ss.ili is not None:
            rec = self.db.ilis[ss.ili]
            return {'id': ss.ili, 'status': rec['status'], 'definition': rec['definition'],
                    'meta': rec['meta']}
        if ss.proposed:
            d = ss.ili_def or {}
            return {'id': None, 'status': 'proposed', 'definition': d.get('text') or None,
                    'meta': clean_meta(d.get('meta'))}
        return None

    def synset_relations(self, ss: RSynset, names=None) -> list:
        """(relation record, [target keys it may map to]) for own + expanded relations."""
        out = []
        for r in self._rels(self.db.synset_rels, ss, names):
            out.append((r, r.src.id, r.tgt.id, [r.tgt.key]))
        if ss.ili is not None and self.E:
            sc = self.scope(ss.owner)
            sources = [x for L in self.db.lexs if L in self.E for x in L.synsets.values()
                       if x.ili == ss.ili and x is not ss]
            for src in sources:
                for r in self.db.synset_rels:
                    if r.src is not src or r.owner not in self.E or r.tgt.owner not in self.E:
                        continue
                    if names is not None and r.name not in names:
                        continue
                    if r.tgt.ili is None:
                        continue
                    local = [x for L in self.db.lexs if L in sc for x in L.synsets.values()
                             if x.ili == r.tgt.ili]
                    if local:
                        keys = [x.key for x in local]
                    else:
                        keys = [{'placeholder': '*INFERRED*', 'ili': r.tgt.ili}]
                    out.append((r, r.src.id, r.tgt.id, keys))
        return out

    def synset_obs(self, ss: RSynset, deep: bool = True) -> dict:
        db = self.db
        sc = self.scope(ss.owner)
        defs = sorted(((ow.order, q, t) for (ow, sn, t, lg, src, m, q) in db.definitions
                       if sn is ss and ow in sc))
        groups = self.synset_senses(ss)
        flat = [s for g in groups for s in g]
        o = {
            'id': ss.id, 'lexicon': ss.owner.spec, 'pos': ss.pos,
            'ili': self.ili_obs(ss),
            'definition': defs[0][2] if defs else None,
            'examples': {'__multiset__': [t for (ow, sn, t, lg, m, q) in db.synset_examples
                                          if sn is ss and ow in sc]},
            'lexfile': ss.lexfile, 'lexicalized': bool(ss.lexicalized),
            'senses': {'__groups__': [[s.key for s in g] for g in groups]},
            'meta': ss.meta,
        }
        if deep:
            if any(s.entry.owner not in self.S for s in flat):
                o['words'] = dict(RAISES)
                o['lemmas'] = dict(RAISES)
            else:
                o['words'] = {'__groups__': [[s.entry.key for s in g] for g in groups]}
                o['lemmas'] = {'__groups__': [
                    [sorted(s.entry.forms, key=lambda f: f.rank)[0].form for s in g]
                    for g in groups]}
            rels = self.synset_relations(ss)
            rm: dict[str, dict] = {}
            for r, sid, tid, keys in rels:
                k = relkey(r.name, sid, tid, r.owner.spec, r.subtype)
                rec = rm.setdefault(k, {'name': r.name, 'source': sid, 'target': tid,
                                        'lexicon': r.owner.spec, 'subtype': r.subtype,
                                        'meta': {'__oneof__': []},
                                        'target_key': {'__oneof__': []}})
                if r.meta not in rec['meta']['__oneof__']:
                    rec['meta']['__oneof__'].append(r.meta)
                for key in keys:
                    if key not in rec['target_key']['__oneof__']:
                        rec['target_key']['__oneof__'].append(key)
            o['relation_map'] = rm
            o['relations'] = self._by_name([(r.name, k) for r, _, _, keys in rels for k in keys])
            o['get_related'] = self._uniq([k for _, _, _, keys in rels for k in keys])
            for attr, names in (('hypernyms', ('hypernym', 'instance_hypernym')),
                                ('hyponyms', ('hyponym', 'instance_hyponym'))):
                o[attr] = self._uniq([k for r, _, _, keys in rels if r.name in names
                                      for k in keys])
        return o

    def ilis_obs(self) -> list:
        out = []
        seen = set()
        for ss in self.synsets():
            if ss.ili is not None and ss.ili not in seen:
                seen.add(ss.ili)
                rec = self.db.ilis[ss.ili]
                out.append({'id': ss.ili, 'status': rec['status'],
                            'definition': rec['definition'], 'meta': rec['meta']})
            elif ss.proposed:
                d = ss.ili_def or {}
                out.append({'id': None, 'status': 'proposed',
                            'definition': d.get('text') or None,
                            'meta': clean_meta(d.get('meta'))})
        return sorted(out, key=lambda d: (str(d['id']), str(d['definition']), str(d['meta'])))

    def expected(self, deep: bool = True) -> dict:
        return {
            'lexicons': {L.spec: self.lexicon_obs(L) for L in self.sel},
            'expanded': sorted(L.spec for L in self.expand),
            'words': {e.key: self.word_obs(e, deep) for e in self.entries()},
            'senses': {s.key: self.sense_obs(s, deep) for s in self.senses()},
            'synsets': {s.key: self.synset_obs(s, deep) for s in self.synsets()},
            'ilis': self.ilis_obs(),
        }


def _groups(items: list, rank) -> list[list]:
    out: dict[Any, list] = {}
    for it in sorted(items, key=rank):
        out.setdefault(rank(it), []).append(it)
    return [out[k] for k in sorted(out)]
