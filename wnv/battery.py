"""Battery for C16: calls every public query / taxonomy / similarity / IC / validate /
dump / export function on an existing database and prints a canonical transcript.

    python -m wnv.battery <data_dir> <source.xml> <scratch_dir> <json list of configurations>

A configuration is ['files'] (export / validate / dump) or [lexicon, expand] for
wn.Wordnet(lexicon, expand=expand).  The configurations are visited in the given order (first
pass) and in reverse order (second pass): a result that depends on which read-only calls came
before (a process-wide cache keyed too coarsely, say) differs between passes or processes.

Lists and dict items appear in the order wn returned them; floats by repr; written files
in full (hex digest + text).  Set-typed results (Morphy) are sorted: a set has no order.
The battery is run twice in the process with a burst of read-only calls in between; both
transcripts are printed (the caller compares them) together with a digest of the raw
table dump before and after.
"""

from __future__ import annotations

import hashlib
import json
import sys
from pathlib import Path


def _err(fn, *a, **kw):
    import wn
    try:
        return fn(*a, **kw)
    except wn.Error as exc:
        return f'<wn.Error>'
    except KeyError as exc:
        return f'<KeyError {exc}>'
    except (ValueError, ZeroDivisionError) as exc:
        return f'<{type(exc).__name__}>'


def _id(x):
    i = getattr(x, 'id', None)
    if i is None:
        return str(x)
    if isinstance(i, str) and i.startswith('*'):
        return f"{i}[{getattr(x, '_ili', None)}]"     # placeholders differ by their ILI
    lexid = getattr(x, '_lexid', None)
    # two selected lexicons may use one id for different entities: tell them apart by the
    # row number of their lexicon (all processes read the same database)
    return i if lexid is None else f'{i}#{lexid}'


def _ids(xs):
    if isinstance(xs, str):
        return xs
    return [_id(x) for x in xs]


def _items(d):
    """A mapping as a list of pairs: the order of a returned mapping is part of the result."""
    return [[str(k), v] for k, v in d.items()]


def transcript(xml: Path, scratch: Path, tag: str, config) -> list:
    """Transcript of one configuration: ['files'] or [lexicon specifier | None, expand | None]."""
    import wn
    import wn.ic
    import wn.lmf
    import wn.morphy
    import wn.similarity as sim
    import wn.taxonomy as tax
    import wn.validate
    T: list = []
    put = T.append
    if config == ['files']:
        for lex in wn.lexicons():
            for v in ('1.0', '1.1', '1.3'):
                if v == '1.0' and lex.extends() is not None:
                    continue
                out = scratch / f'{tag}-{lex.id}-{v}.xml'
                wn.export([lex], out, version=v)
                data = out.read_bytes()
                put(['export', lex.specifier(), v, hashlib.sha256(data).hexdigest(),
                     data.decode('utf-8')])
        res = wn.lmf.load(xml, progress_handler=None)
        for lx in res['lexicons']:
            rep = wn.validate.validate(lx, progress_handler=None)
            put(['validate', lx['id'],
                 [[code, list(d['items'].items())] for code, d in rep.items()]])
        out = scratch / f'{tag}-dump.xml'
        wn.lmf.dump(res, out)
        put(['dump', out.read_bytes().decode('utf-8')])
        return T
    lexicon, expand = config
    import warnings
    with warnings.catch_warnings(record=True) as caught:
        warnings.simplefilter('always')
        w = wn.Wordnet(lexicon, expand=expand)
    if True:
        spec = str(config)
        put(['lexicons', [lx.specifier() for lx in w.lexicons()],
             [lx.specifier() for lx in w.expanded_lexicons()],
             [str(c.message) for c in caught], w.describe()])
        put(['words', _ids(w.words()), 'senses', _ids(w.senses()), 'synsets', _ids(w.synsets())])
        put(['ilis', [[i.id, i.status] for i in w.ilis()]])
        for wd in w.words():
            put(['word', wd.id, [str(f) for f in wd.forms()], _ids(wd.senses()),
                 _err(lambda: _ids(wd.synsets())), _err(lambda: _ids(wd.derived_words())),
                 [[t.tag, t.category] for f in wd.forms() for t in f.tags()]])
        for s in w.senses():
            put(['sense', s.id, s.examples(), [int(c) for c in s.counts()], s.frames(),
                 [[r.name, r.target_id, r.subtype] for r in s.relation_map()],
                 _items({k: _ids(v) for k, v in s.relations().items()}), _ids(s.get_related()),
                 _ids(s.get_related_synsets()), _ids(s.closure('antonym', 'also', 'zz_rel'))])
        sss = w.synsets()
        for ss in sss:
            put(['synset', ss.id, ss.definition(), ss.examples(), _ids(ss.senses()),
                 _err(lambda: [str(x) for x in ss.lemmas()]),
                 [[r.name, r.target_id, r.subtype] for r in ss.relation_map()],
                 _items({k: _ids(v) for k, v in ss.relations().items()}),
                 _ids(ss.get_related()), _ids(ss.hypernyms()), _ids(ss.hyponyms()),
                 [_ids(p) for p in ss.hypernym_paths()], ss.min_depth(), ss.max_depth(),
                 _ids(ss.closure('hypernym')), _ids(ss.translate())])
        # the same object asked again after other read-only calls on it (a closure walks the
        # relations it was given): compared inside the check, [before, after] must agree
        for ss in sss:
            def ask(ss=ss):
                return [_ids(ss.hypernyms()), _ids(ss.get_related()),
                        _ids(ss.get_related('hypernym')),
                        [_ids(p) for p in ss.hypernym_paths()], ss.max_depth()]
            before = ask()
            _ids(ss.closure('hypernym', 'instance_hypernym'))
            _ids(ss.closure('hypernym'))
            next(iter(ss.closure()), None)            # ... also one that is abandoned midway
            put(['same-object', ss.id, before, ask()])
        for s in w.senses():
            names = ('antonym', 'also', 'zz_rel')
            before = [_ids(s.get_related(*names)), _ids(s.get_related())]
            _ids(s.closure(*names))
            next(iter(s.closure()), None)
            put(['same-object', s.id, before, [_ids(s.get_related(*names)), _ids(s.get_related())]])
        put(['roots', _ids(tax.roots(w)), 'leaves', _ids(tax.leaves(w))])
        depth = {p: tax.taxonomy_depth(w, p) for p in ('n', 'v', 'a')}
        put(['taxonomy_depth', _items(depth)])
        corpus = [str(wd.lemma()) for wd in w.words()] * 2 + ['unknown-token']
        freq = wn.ic.compute(corpus, w)
        put(['ic', _items({p: _items(d) for p, d in freq.items()})])
        # all pairs among at most ten synsets (first five and last five of the listing)
        pss = sss if len(sss) <= 10 else sss[:5] + sss[-5:]
        for a in pss:
            for b in pss:
                for root in (False, True):
                    put(['pair', a.id, b.id, root,
                         _err(lambda: _ids(a.shortest_path(b, simulate_root=root))),
                         _ids(a.common_hypernyms(b, simulate_root=root)),
                         _ids(a.lowest_common_hypernyms(b, simulate_root=root)),
                         repr(_err(sim.path, a, b, root)), repr(_err(sim.wup, a, b, root)),
                         repr(_err(sim.lch, a, b, max(1, depth.get(a.pos, 1) or 1), root))])
                put(['ic-pair', a.id, b.id, repr(_err(sim.res, a, b, freq)),
                     repr(_err(sim.jcn, a, b, freq)), repr(_err(sim.lin, a, b, freq))])
        m0, m1 = wn.morphy.Morphy(), wn.morphy.Morphy(w)
        for wd in w.words()[:6]:
            for q in (str(wd.lemma()), str(wd.lemma()) + 's', str(wd.lemma()) + 'es'):
                put(['morphy', q, _items({str(k): sorted(v) for k, v in m0(q).items()}),
                     _items({str(k): sorted(v) for k, v in m1(q).items()})])
        # lemmas of every installed lexicon, also those outside this configuration: what an
        # initialised Morphy answers depends on its own wordnet only, whatever other lemmatizers
        # were built in this process before
        everywhere = sorted({str(wd.lemma()) for wd in wn.words()})[:12]
        for q in everywhere:
            put(['morphy-any-lexicon', q,
                 [_items({str(k): sorted(v) for k, v in m1(q + sfx).items()})
                  for sfx in ('', 's', 'es')]])
        with warnings.catch_warnings():
            warnings.simplefilter('ignore')
            lw = wn.Wordnet(lexicon, expand=expand, lemmatizer=m1)
        put(['lemmatized-any-lexicon', [_ids(lw.words(q + 's')) for q in everywhere]])
        put(['lemmatized', [_ids(lw.words(str(wd.lemma()) + 's')) for wd in w.words()[:6]]])
        # queries whose candidate lemmas (a set per part of speech) all exist
        for q in sorted({str(wd.lemma()) + sfx for wd in w.words()[:8] for sfx in ('s', 'es')}):
            put(['lemmatized-query', q, _ids(lw.words(q)), _ids(lw.senses(q)),
                 _ids(lw.synsets(q)), _ids(lw.senses(q, pos='n'))])
    return T


def main(argv):
    datadir, xml, scratch = Path(argv[1]), Path(argv[2]), Path(argv[3])
    order = json.loads(argv[4])
    sys.path.insert(0, str(Path(__file__).resolve().parent.parent))
    from wnv import dumps, env
    wn = env.import_wn()
    wn.config.data_directory = datadir
    dbfile = datadir / 'wn.db'
    before = hashlib.sha256(json.dumps(dumps.raw_dump(dbfile), sort_keys=True,
                                       default=str).encode()).hexdigest()
    t1 = {json.dumps(c): transcript(xml, scratch, 'a', c) for c in order}
    # burst of read-only calls
    for lex in wn.lexicons():
        w = wn.Wordnet(lex.specifier())
        for ss in w.synsets():
            ss.hypernym_paths(simulate_root=True)
            ss.relations()
        len(w.words()), len(w.senses())
    t2 = {json.dumps(c): transcript(xml, scratch, 'b', c) for c in reversed(order)}
    env.close_pool()
    after = hashlib.sha256(json.dumps(dumps.raw_dump(dbfile), sort_keys=True,
                                      default=str).encode()).hexdigest()
    json.dump({'first': t1, 'second': t2, 'raw_before': before, 'raw_after': after},
              sys.stdout, ensure_ascii=False)


if __name__ == '__main__':
    main(sys.argv)
