"""Independent reference for the eighteen checks of ``wn.validate`` (C18).

Nothing here imports wn.  The relation inventories and the reverse map are
parsed from ``docs/api/wn.constants.rst``; the conditions are the documented
sentences of the ``wn.validate`` module documentation read as in DESIGN.md
appendix B.

``reference(lex, inv)`` returns ``{code: [Offence, ...]}``.  An offence names
the report key it would be listed under, whether the documented sentence
clearly applies (``must``) or is undecided (``may``), and the context fields
that describe it.  A report conforms when::

    {o.key for o in offences if o.must}  <=  set(items)  <=  {o.key for o in offences}

and every item's context agrees with at least one offence of that key.
"""

from __future__ import annotations

import ast
import re
import textwrap
from collections import Counter
from pathlib import Path
from typing import Any, NamedTuple

CODES = ('E101',
         'W201', 'W202', 'W203', 'E204',
         'W301', 'W302', 'W303', 'W304', 'W305', 'W306', 'W307',
         'E401', 'W402', 'W403', 'W404',
         'W501', 'W502')

# documented in wn.constants.rst as their own reverse, absent from
# wn/constants.py (DESIGN appendix B: docs and code disagree -> undecided)
DISPUTED_REVERSE = frozenset({'also', 'pertainym'})

ANY = '\x00any'     # wildcard value of a context field


class Offence(NamedTuple):
    key: str
    must: bool
    fields: dict


# ---------------------------------------------------------------------------
# inventories from the documentation

class DocsError(Exception):
    pass


def parse_constants_rst(path) -> dict:
    txt = Path(path).read_text(encoding='utf-8')

    def bullet_list(name: str) -> frozenset:
        m = re.search(r'^\.\. data:: ' + name + r'[ \t]*\n\s*\n((?:[ \t]+- ``[^`\n]+``[^\n]*\n)+)',
                      txt, re.M)
        if not m:
            raise DocsError(f'no bullet list for {name} in {path}')
        items = re.findall(r'^[ \t]+- ``([^`\n]+)``', m.group(1), re.M)
        return frozenset(items)

    m = re.search(r'^\.\. data:: REVERSE_RELATIONS[ \t]*\n\s*\n[ \t]+\.\. code-block:: python[ \t]*\n'
                  r'\s*\n((?:(?:[ \t]+[^\n]*)?\n)+?)(?=\S)', txt, re.M)
    if not m:
        raise DocsError(f'no REVERSE_RELATIONS code block in {path}')
    try:
        rev = ast.literal_eval(textwrap.dedent(m.group(1)).strip())
    except (SyntaxError, ValueError) as exc:
        raise DocsError(f'REVERSE_RELATIONS block is not a literal: {exc}') from exc
    if not isinstance(rev, dict) or not all(isinstance(k, str) and isinstance(v, str)
                                            for k, v in rev.items()):
        raise DocsError('REVERSE_RELATIONS block is not a str->str dict')
    inv = {'synset': bullet_list('SYNSET_RELATIONS'),
           'sense': bullet_list('SENSE_RELATIONS'),
           'sense_synset': bullet_list('SENSE_SYNSET_RELATIONS'),
           'reverse': rev}
    # plausibility (the parser, not wn, is at fault when these fail)
    if len(inv['synset']) < 20 or len(inv['sense']) < 10 or len(inv['sense_synset']) < 2 \
            or len(rev) < 20:
        raise DocsError(f'implausibly small inventories parsed from {path}')
    for probe, where in (('hypernym', 'synset'), ('antonym', 'sense'),
                         ('domain_topic', 'sense_synset')):
        if probe not in inv[where]:
            raise DocsError(f'{probe} not in documented {where} relations')
    if rev.get('hypernym') != 'hyponym':
        raise DocsError('documented reverse of hypernym is not hyponym')
    return inv


# ---------------------------------------------------------------------------
# helpers

def _blank(text: Any) -> bool:
    return (text or '').strip() == ''


def _real_ili(ili: Any) -> bool:
    return bool(ili) and ili != 'in'


def _dct(rel: dict):
    return (rel.get('meta') or {}).get('type') or None


def _lemma_key(e: dict):
    lem = e.get('lemma') or {}
    return (lem.get('writtenForm'), lem.get('partOfSpeech'), lem.get('script') or None)


# ---------------------------------------------------------------------------
# the eighteen conditions

def reference(lex: dict, inv: dict) -> dict:
    entries = lex.get('entries') or []
    synsets = lex.get('synsets') or []
    senses = [(e, s) for e in entries for s in (e.get('senses') or [])]
    sense_ids = Counter(s['id'] for _, s in senses)
    synset_ids = Counter(ss['id'] for ss in synsets)
    entry_ids = Counter(e['id'] for e in entries)
    SENSE, SYNSET, SENSE_SYNSET = inv['sense'], inv['synset'], inv['sense_synset']
    REV = inv['reverse']

    out: dict[str, list] = {c: [] for c in CODES}

    # E101 ID is not unique within the lexicon ------------------------------
    ids = Counter([lex['id']])
    ids.update(f['id'] for e in entries for f in (e.get('forms') or []) if f.get('id'))
    ids.update(fr['id'] for fr in (lex.get('frames') or []) if fr.get('id'))
    ids.update(entry_ids)
    ids.update(sense_ids)
    ids.update(synset_ids)
    for i, n in ids.items():
        if n > 1:
            out['E101'].append(Offence(i, True, {'count': n}))

    # W201 Lexical entry has no senses --------------------------------------
    for e in entries:
        if not e.get('senses'):
            out['W201'].append(Offence(e['id'], True, {}))

    # W202 Redundant sense between lexical entry and synset ------------------
    for e in entries:
        cnt = Counter(s['synset'] for s in (e.get('senses') or []))
        for s in (e.get('senses') or []):
            if cnt[s['synset']] > 1:
                out['W202'].append(Offence(s['id'], True,
                                           {'entry': e['id'], 'synset': s['synset']}))

    # W203 Redundant lexical entry with the same lemma and synset -----------
    carriers: dict[tuple, list] = {}
    for e, s in senses:
        wf = _lemma_key(e)[0]
        carriers.setdefault((wf, s['synset']), []).append((e['id'], _lemma_key(e), id(e)))
    for (wf, synset), cs in carriers.items():
        # a redundant *entry* needs a second entry: one entry with two senses in the synset is
        # W202's business
        if len({el for _, _, el in cs}) < 2:      # entry elements, whatever their ids
            continue
        # clearly redundant: two entries (distinct ids) with the identical lemma
        by_lemma: dict[tuple, set] = {}
        for eid, lk, _el in cs:
            by_lemma.setdefault(lk, set()).add(eid)
        must = any(len(eids) >= 2 for eids in by_lemma.values())
        out['W203'].append(Offence(wf, must, {'synset': synset}))

    # E204 Synset of sense is missing ----------------------------------------
    for e, s in senses:
        if s['synset'] not in synset_ids:
            out['E204'].append(Offence(s['id'], True, {'synset': s['synset']}))

    # W301 Synset is empty ----------------------------------------------------
    referenced = {s['synset'] for _, s in senses}
    for ss in synsets:
        if ss['id'] not in referenced:
            out['W301'].append(Offence(ss['id'], not ss.get('members'), {}))

    # W302 ILI is repeated across synsets --------------------------------------
    by_ili: dict[str, list] = {}
    for ss in synsets:
        if _real_ili(ss.get('ili')):
            by_ili.setdefault(ss['ili'], []).append(ss['id'])
    for ss in synsets:
        ili = ss.get('ili')
        if _real_ili(ili) and len(by_ili[ili]) >= 2:
            out['W302'].append(Offence(ss['id'], len(set(by_ili[ili])) >= 2, {'ili': ili}))

    # W303 Proposed ILI is missing a definition --------------------------------
    # W304 Existing ILI has a spurious definition ------------------------------
    for ss in synsets:
        d = ss.get('ili_definition')
        if ss.get('ili') == 'in':
            if not d:
                out['W303'].append(Offence(ss['id'], True, {}))
            elif _blank(d.get('text')):
                out['W303'].append(Offence(ss['id'], False, {}))
        elif _real_ili(ss.get('ili')) and d:
            out['W304'].append(Offence(ss['id'], not _blank(d.get('text')), {}))

    # W305 / W306 blank definition / example ------------------------------------
    for ss in synsets:
        if any(_blank(d.get('text')) for d in (ss.get('definitions') or [])):
            out['W305'].append(Offence(ss['id'], True, {}))
        if any(_blank(x.get('text')) for x in (ss.get('examples') or [])):
            out['W306'].append(Offence(ss['id'], True, {}))

    # W307 Synset repeats an existing definition --------------------------------
    alldefs = [(k, j, ss['id'], d.get('text') or '', d.get('language') or '')
               for k, ss in enumerate(synsets)
               for j, d in enumerate(ss.get('definitions') or [])]
    for k, j, ssid, text, lang in alldefs:
        strong = weak = False
        for k2, j2, ssid2, text2, lang2 in alldefs:
            if (k2, j2) == (k, j) or text2 != text:
                continue
            weak = True
            if ssid2 != ssid and lang2 == lang and not _blank(text):
                strong = True
        if weak:
            out['W307'].append(Offence(ssid, strong, {}))

    # relations ------------------------------------------------------------------
    srels = [(s, r) for _, s in senses for r in (s.get('relations') or [])]
    ssrels = [(ss, r) for ss in synsets for r in (ss.get('relations') or [])]

    def ctx(r):
        return {'type': r['relType'], 'target': r['target']}

    # E401 Relation target is missing or invalid
    for s, r in srels:
        if r['target'] not in sense_ids and r['target'] not in synset_ids:
            out['E401'].append(Offence(s['id'], True, ctx(r)))
    for ss, r in ssrels:
        if r['target'] not in synset_ids:
            out['E401'].append(Offence(ss['id'], True, ctx(r)))

    # W402 Relation type is invalid for the source and target
    for s, r in srels:
        t, tgt = r['relType'], r['target']
        bad_s, bad_ss = t not in SENSE, t not in SENSE_SYNSET
        in_s, in_ss = tgt in sense_ids, tgt in synset_ids
        if in_s and in_ss:
            if bad_s and bad_ss:
                out['W402'].append(Offence(s['id'], True, ctx(r)))
            elif bad_s or bad_ss:
                out['W402'].append(Offence(s['id'], False, ctx(r)))
        elif in_s:
            if bad_s:
                out['W402'].append(Offence(s['id'], True, ctx(r)))
        elif in_ss:
            if bad_ss:
                out['W402'].append(Offence(s['id'], True, ctx(r)))
        elif bad_s or bad_ss:
            out['W402'].append(Offence(s['id'], False, ctx(r)))
    for ss, r in ssrels:
        if r['relType'] not in SYNSET:
            out['W402'].append(Offence(ss['id'], r['target'] in synset_ids, ctx(r)))

    # W403 Redundant relation between source and target
    for src, rels in ([(s, s.get('relations') or []) for _, s in senses]
                      + [(ss, ss.get('relations') or []) for ss in synsets]):
        cnt = Counter((r['relType'], r['target'], _dct(r)) for r in rels)
        for (t, tgt, dct), n in cnt.items():
            if n > 1:
                out['W403'].append(Offence(src['id'], True,
                                           {'type': t, 'target': tgt, 'dc:type': dct}))
    loose = Counter((x['id'], r['relType'], r['target']) for x, r in srels + ssrels)
    for (src, t, tgt), n in loose.items():
        if n > 1:
            out['W403'].append(Offence(src, False, {'type': t, 'target': tgt, 'dc:type': ANY}))

    # W404 Reverse relation is missing (listed under the *target*)
    decl_sense = {(s['id'], r['relType'], r['target']) for s, r in srels}
    decl_synset = {(ss['id'], r['relType'], r['target']) for ss, r in ssrels}
    decl_all = decl_sense | decl_synset
    for kind, rels, decl_kind, ids_kind, ids_other, valid in (
            ('sense', srels, decl_sense, sense_ids, synset_ids, SENSE),
            ('synset', ssrels, decl_synset, synset_ids, sense_ids, SYNSET)):
        for x, r in rels:
            t, tgt, src = r['relType'], r['target'], x['id']
            if t not in REV:
                continue
            if tgt not in ids_kind:
                # the target does not exist (E401 reports that) or is of the other kind
                # (sense -> synset: WN-LMF cannot express a relation from a synset back to a
                # sense): there is no entity that could lack the reverse relation
                continue
            back = (tgt, REV[t], src)
            must = (back not in decl_all
                    and tgt in ids_kind and tgt not in ids_other and src not in ids_other
                    and t in valid and t not in DISPUTED_REVERSE)
            if must or back not in decl_kind:
                out['W404'].append(Offence(tgt, must, {'type': REV[t], 'target': src}))

    # W501 Synset's part-of-speech is different from its hypernym's
    pos_of: dict[str, list] = {}
    for ss in synsets:
        pos_of.setdefault(ss['id'], []).append(ss.get('partOfSpeech') or None)
    for ss, r in ssrels:
        t, tgt = r['relType'], r['target']
        sp = ss.get('partOfSpeech') or None
        if t in ('hypernym', 'instance_hypernym'):
            if tgt not in synset_ids:
                out['W501'].append(Offence(ss['id'], False, ctx(r)))
                continue
            ps = pos_of[tgt]
            # an absent part of speech is different from a present one (two absent ones are not)
            clear = t == 'hypernym' and all(p != sp for p in ps)
            if clear:
                out['W501'].append(Offence(ss['id'], True, ctx(r)))
            elif any(p != sp for p in ps):
                out['W501'].append(Offence(ss['id'], False, ctx(r)))
        elif t in ('hyponym', 'instance_hyponym') and tgt in synset_ids:
            # the target's hypernym is this synset: a checker may read it that way
            if any(p != sp for p in pos_of[tgt]):
                out['W501'].append(Offence(tgt, False, {'type': ANY, 'target': ANY}))

    # W502 Relation is a self-loop
    for x, r in srels + ssrels:
        if r['target'] == x['id']:
            out['W502'].append(Offence(x['id'], True, ctx(r)))

    return out


def must_keys(offences: list) -> set:
    return {o.key for o in offences if o.must}


def allowed_keys(offences: list) -> set:
    return {o.key for o in offences}


CONTEXT_FIELDS = ('count', 'entry', 'synset', 'ili', 'type', 'target', 'dc:type')


def context_ok(offences: list, key: str, context: dict) -> bool:
    """Does *context* describe one of the offences listed under *key*?

    Only the fields an offence carries (names in CONTEXT_FIELDS) are compared,
    and only when the item has them; ``dc:type`` absent means "no dc:type"."""
    for o in offences:
        if o.key != key:
            continue
        ok = True
        for f, want in o.fields.items():
            if want == ANY:
                continue
            if f == 'dc:type':
                if (context.get(f) or None) != want:
                    ok = False
            elif f in context and context[f] != want:
                ok = False
        if ok:
            return True
    return False
