"""Canonical form of resources (DESIGN.md appendix A) and version projection."""

from __future__ import annotations

import copy
import re
import hashlib
import json
from typing import Any


XML_SPACE_KEY = 'http://www.w3.org/XML/1998/namespace space'    # wn.lmf.load's key for xml:space
_XML_WS = re.compile('[ \t\r\n]+')


def xml_ws_norm(s: str) -> str:
    """White-space normalisation over XML's white space only (space, TAB, CR, LF): NO-BREAK SPACE,
    IDEOGRAPHIC SPACE, NEL ... are ordinary characters of the text."""
    return _XML_WS.sub(' ', s).strip(' ')


def canon(x: Any, key: str = '') -> Any:
    """Canonical form applied to *both* sides of every resource comparison.

    * optional string attribute '' == absent; empty list/dict == absent
    * meta None == {} == all values empty
    * lexicalized / phonemic absent == True ; external absent == False
    * list order kept
    """
    if isinstance(x, dict):
        out = {}
        for k, v in x.items():
            if k in ('lexicalized', 'phonemic') and v is True:
                continue
            if k in ('space', XML_SPACE_KEY):
                # the flag says how the text was written; what is compared is the text
                continue
            if k == 'external' and not v:
                continue
            if k == 'meta':
                v = {mk: str(mv) for mk, mv in (v or {}).items() if mv not in ('', None)}
                if not v:
                    continue
                out[k] = v
                continue
            cv = canon(v, k)
            if cv in ('', None, [], {}):
                continue
            out[k] = cv
        return out
    if isinstance(x, (list, tuple)):
        return [canon(v, key) for v in x]
    return x


def fingerprint(x: Any) -> str:
    data = json.dumps(x, sort_keys=True, ensure_ascii=True, default=str)
    return hashlib.blake2b(data.encode(), digest_size=10).hexdigest()


# ---------------------------------------------------------------------------
# version projection

def is_v10(v: str) -> bool:
    return v == '1.0'


def project(res: dict, target: str) -> dict:
    """Remove exactly what LMF *target* has no element/attribute for.

    Source version is res['lmf_version'].  Frames: the two encodings are
    version specific (entry-level <1.1, lexicon-level + subcat >=1.1); crossing
    the boundary drops them (the quantifier of C02 fixes the two styles).
    """
    src = res['lmf_version']
    out = copy.deepcopy(res)
    out['lmf_version'] = target
    for lex in out['lexicons']:
        if is_v10(target):
            assert not lex.get('extends'), 'extensions cannot be projected to 1.0'
            lex.pop('logo', None)
            lex.pop('requires', None)
            lex.pop('frames', None)
        for e in lex.get('entries', []):
            forms = ([e['lemma']] if e.get('lemma') else []) + e.get('forms', [])
            if is_v10(target):
                for f in forms:
                    f.pop('pronunciations', None)
                for f in e.get('forms', []):
                    f.pop('id', None)
                for s in e.get('senses', []):
                    s.pop('subcat', None)
            else:
                # >=1.1 writers have no entry-level frames
                e.pop('frames', None)
        for ss in lex.get('synsets', []):
            if is_v10(target):
                ss.pop('members', None)
                ss.pop('lexfile', None)
    if target != '1.3':
        # only 1.3 has xml:space: elsewhere the text comes back white-space normalised
        _normalise_preserved(out)
    return out


def _normalise_preserved(x: Any) -> None:
    if isinstance(x, dict):
        if x.get('space') == 'preserve' and isinstance(x.get('text'), str):
            x['text'] = xml_ws_norm(x['text'])
            x.pop('space')
        for v in x.values():
            _normalise_preserved(v)
    elif isinstance(x, list):
        for v in x:
            _normalise_preserved(v)


def strip_example_meta(res: dict) -> dict:
    out = copy.deepcopy(res)
    for lex in out['lexicons']:
        for e in lex.get('entries', []):
            for s in e.get('senses', []):
                for x in s.get('examples', []):
                    x.pop('meta', None)
        for ss in lex.get('synsets', []):
            for x in ss.get('examples', []):
                x.pop('meta', None)
    return out


# ---------------------------------------------------------------------------
# structural diff

def _key(x: Any) -> str:
    return json.dumps(x, sort_keys=True, ensure_ascii=True, default=str)


def diff(expected: Any, got: Any, path: str = '', out: list | None = None,
         limit: int = 40) -> list:
    """List of (path, expected, got) differences between two JSON-like values.

    *expected* may contain the special nodes
      {'__multiset__': [...]}   got must be a list with the same items in any order
      {'__groups__': [[..],..]} got must be the concatenation of a permutation of each group
      {'__oneof__': [...]}      got must equal one of the alternatives
      {'__any__': True}         anything
    """
    if out is None:
        out = []
    if len(out) >= limit:
        return out
    if isinstance(expected, dict) and len(expected) == 1:
        (k, v), = expected.items()
        if k == '__any__':
            return out
        if k == '__oneof__':
            if not any(not diff(alt, got, path, [], 1) for alt in v):
                out.append((path, expected, got))
            return out
        if k == '__multiset__':
            if not isinstance(got, list) or sorted(map(_key, v)) != sorted(map(_key, got)):
                out.append((path + '/{multiset}', sorted(v, key=_key),
                            sorted(got, key=_key) if isinstance(got, list) else got))
            return out
        if k == '__groups__':
            flat = [x for g in v for x in g]
            ok = isinstance(got, list) and len(got) == len(flat)
            i = 0
            if ok:
                for g in v:
                    if sorted(map(_key, g)) != sorted(map(_key, got[i:i + len(g)])):
                        ok = False
                        break
                    i += len(g)
            if not ok:
                out.append((path + '/{ordered-groups}', v, got))
            return out
    if isinstance(expected, dict) and isinstance(got, dict):
        for k in sorted(set(expected) | set(got), key=str):
            if k not in got:
                out.append((f'{path}/{k}', expected[k], '<absent>'))
            elif k not in expected:
                out.append((f'{path}/{k}', '<absent>', got[k]))
            else:
                diff(expected[k], got[k], f'{path}/{k}', out, limit)
            if len(out) >= limit:
                break
    elif isinstance(expected, list) and isinstance(got, list):
        if len(expected) != len(got):
            out.append((f'{path}/#len', len(expected), len(got)))
        for i, (a, b) in enumerate(zip(expected, got)):
            diff(a, b, f'{path}[{i}]', out, limit)
            if len(out) >= limit:
                break
    else:
        if expected != got or isinstance(expected, bool) != isinstance(got, bool):
            out.append((path, expected, got))
    return out
