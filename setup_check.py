#!/venv/bin/python
"""MANIFEST.setup_cmd: make sure hypothesis is importable in /venv (offline wheelhouse) and wn is /repo's."""
import subprocess, sys
try:
    import hypothesis  # noqa
except ImportError:
    subprocess.check_call([sys.executable, '-m', 'pip', 'install', '--no-index', '--find-links',
                           '/opt/veriftools/wheels', 'hypothesis'])
# optional: atheris for the thorough byte-level campaign of C20 (the check works without it)
import os
deps = '/verif/.deps'
try:
    sys.path.insert(0, deps)
    import atheris  # noqa
except Exception:
    try:
        subprocess.call([sys.executable, '-m', 'pip', 'install', '-q', '--no-index', '--find-links',
                         '/opt/veriftools/wheels', '--target', deps, 'atheris'],
                        stdout=subprocess.DEVNULL, stderr=subprocess.DEVNULL)
    except Exception:
        pass
sys.path.insert(0, '/verif')
from wnv import env
wn = env.import_wn()
import hypothesis
print('setup ok: wn', wn.__file__, 'hypothesis', hypothesis.__version__)
