#!/opt/veriftools/pyvenv/bin/python
"""Validate MANIFEST.json and evidence/*.json against the given schemas (python3-vt has jsonschema)."""
import json, glob, sys, jsonschema
ok = True
jsonschema.validate(json.load(open('/verif/MANIFEST.json')), json.load(open('/root/.vp/MANIFEST.schema.json')))
es = json.load(open('/root/.vp/EVIDENCE.schema.json'))
for f in sorted(glob.glob('/verif/evidence/*.json')):
    try:
        jsonschema.validate(json.load(open(f)), es)
    except Exception as e:
        ok = False
        print('INVALID', f, str(e)[:300])
print('all valid' if ok else 'problems')
sys.exit(0 if ok else 1)
