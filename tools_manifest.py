#!/venv/bin/python
"""Regenerates MANIFEST.json from the per-property table below (keeps it valid)."""
import json, importlib, sys
sys.path.insert(0, '/verif')
CLAIMED = json.load(open('/verif/manifest_checks.json'))
props = [json.loads(l) for l in open('/verif/properties.jsonl')]
checks = []
for p in props:
    pid = p['id']
    c = CLAIMED.get(pid)
    if not c:
        continue
    checks.append({
        'property_id': pid,
        'quick_cmd': f'/venv/bin/python -m wnv.run {pid} --tier quick',
        'thorough_cmd': f'/venv/bin/python -m wnv.run {pid} --tier thorough',
        'evidence_file': f'/verif/evidence/{pid}.json',
        'replay_cmd_template': f'/venv/bin/python -m wnv.run {pid} --replay {{path}}',
        'engine': 'wnv',
        'level_claimed': {'category': c.get('category', 'exploration'), 'text': c['text'],
                          'design_ref': c.get('design_ref', f'DESIGN.md section 4, {pid}')},
        'level_note': c['note'],
        'technique': c['technique'],
    })
na = [{'property_id': p['id'], 'reason': 'not claimed'}
      for p in props if p['id'] not in CLAIMED]
manifest = {
    'version': 1,
    'setup_cmd': '/venv/bin/python /verif/setup_check.py',
    'hooks': {'guard': 'WN_VERIF', 'enable': 'no hooks needed: checks drive the public API of /repo (editable install in /venv) and plain sqlite3 features',
              'baseline_off_cmd': 'cd /repo && /venv/bin/python -m pytest -ra -q -p no:cacheprovider --timeout=900 --continue-on-collection-errors',
              'source_commits': [], 'add_only': True},
    'engines': [{'name': 'wnv', 'path': '/verif/wnv', 'serves_properties': [c['property_id'] for c in checks],
                 'kind_free_text': 'Hypothesis-driven generated-input search with explicit oracles (reference model, round trip, differential, metamorphic), exhaustive enumeration of small finite families, injected faults; python -m wnv.run <ID> --tier quick|thorough'}],
    'checks': checks,
    'notes': 'All checks import wn from /repo (editable install), build fresh databases under /dev/shm and honour VERIF_SEED. Exit 2 = harness error (never a violation).',
    'not_applicable': na,
}
json.dump(manifest, open('/verif/MANIFEST.json', 'w'), indent=1)
print(len(checks), 'checks,', len(na), 'not claimed')
